#!/bin/bash
# Runs the repository's own suite with the verif guard OFF and compares against the stable list
# in /root/.vp/BASELINE.json (REPO_DIR=<worktree> runs it somewhere else than /repo). A stable test that fails in the full (concurrent) run is re-run
# alone up to 3 times before it counts as a regression (the suite shares ./data between tests).
set -u
REPO_DIR="${REPO_DIR:-/repo}"
export REPO_DIR
cd "$REPO_DIR" || exit 2
unset RUSTFLAGS
export CARGO_NET_OFFLINE=true
OUT=$(mktemp -d)
cargo nextest run --workspace --no-fail-fast --tool-config-file pb:/w/lib/nextest.toml --profile pb --test-threads 8 --offline > "$OUT/log" 2>&1
J="$REPO_DIR/target/nextest/pb/junit.xml"
python3 - "$J" "$OUT" <<'PY'
import json,os,sys,xml.etree.ElementTree as ET,subprocess
j,out=sys.argv[1],sys.argv[2]
base=json.load(open('/root/.vp/BASELINE.json'))
stable=set(base['stable_pass'])
res={}
for tc in ET.parse(j).getroot().iter('testcase'):
    name=tc.get('classname')+'::'+tc.get('name')
    failed = tc.find('failure') is not None or tc.find('error') is not None
    res[name]=not failed
missing=[s for s in stable if s not in res]
failed=[s for s in stable if s in res and not res[s]]
print("stable:",len(stable),"ran:",len([s for s in stable if s in res]),"failed-in-full-run:",len(failed),"missing:",len(missing))
bad=list(missing)
for f in failed:
    crate,_,test=f.partition('::')
    ok=False
    for k in range(3):
        r=subprocess.run(['cargo','test','--offline','-p',crate,'--lib','--',test,'--exact'],cwd=os.environ['REPO_DIR'],capture_output=True,text=True)
        if r.returncode==0 and 'test result: ok. 1 passed' in r.stdout:
            ok=True;break
    print("  re-run alone:",f,"->","ok" if ok else "FAIL")
    if not ok: bad.append(f)
print("REGRESSIONS:",bad)
sys.exit(1 if bad else 0)
PY
rc=$?
rm -rf "$OUT"
exit $rc
