#!/bin/bash
# seeded_regress.sh [name...]: for every kept seeded change (default: all) apply it, run the first check that is
# recorded as catching it (meta.json caught_by_checks) in the quick tier, and report whether a violation is still
# raised. Changes recorded as not caught (empty caught_by_checks) are listed as such.
cd /verif
names="${@:-$(ls seeded | grep -v '\.json$')}"
ok=0; bad=0
for n in $names; do
  [ -f seeded/$n/meta.json ] || continue
  chk=$(python3 -c "import json;m=json.load(open('seeded/$n/meta.json'));c=m.get('caught_by_checks',[]);print(c[0] if c else '')")
  if [ -z "$chk" ]; then echo "$n: recorded as not caught (outside the simulator)"; continue; fi
  out=$(tools/run_seeded.sh $n $chk quick 2>&1)
  if echo "$out" | grep -q "run_seeded $n $chk rc=1"; then ok=$((ok+1)); echo "$n: caught by $chk ($(echo "$out" | grep -c 'signature:') signature(s))"; else bad=$((bad+1)); echo "$n: NOT CAUGHT by $chk"; echo "$out" | tail -3; fi
done
echo "caught=$ok missed=$bad"
