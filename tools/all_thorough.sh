#!/bin/bash
# all_thorough.sh [ids...]: the thorough tier of every (or the given) property on the current tree, one after
# the other, each under the repository lock; output to a scratch VERIF_OUT_DIR (the committed evidence is
# that of the quick tier unless a thorough run is made without VERIF_OUT_DIR)
cd /verif
IDS="${@:-C01 C02 C03 C04 C05 C06 C07 C08 C09 C10 C11 C12 C13 C14 C15 C16 C17 C18 C19 C20}"
for id in $IDS; do
  out=$(VERIF_OUT_DIR=${THOROUGH_OUT:-/tmp/thorough-out} flock /tmp/repo.lock ./verifctl check $id thorough 2>&1)
  rc=$?
  echo "rc=$rc $(echo "$out" | tail -1)"
  if [ $rc -ne 0 ]; then echo "$out" | grep -E "VIOLATION|signature|detail" | cut -c1-400; fi
done
