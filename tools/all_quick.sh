#!/bin/bash
# all_quick.sh [seed...]: every quick check on the current tree for each seed (default: 1); prints one line per check.
# Output of non-default seeds goes to a scratch VERIF_OUT_DIR so that committed evidence stays that of the last real run.
cd /verif
for SEED in "${@:-1}"; do
  for id in C01 C02 C03 C04 C05 C06 C07 C08 C09 C10 C11 C12 C13 C14 C15 C16 C17 C18 C19 C20; do
    out=$(VERIF_SEED=$SEED VERIF_OUT_DIR=/tmp/allquick-out ./verifctl check $id quick 2>&1)
    rc=$?
    echo "seed=$SEED rc=$rc $(echo "$out" | tail -1)"
    if [ $rc -ne 0 ]; then echo "$out" | grep -E "VIOLATION|signature|detail" | cut -c1-300; fi
  done
done
