#!/usr/bin/env python3
"""markdown table of what the last run of every check covered (from /verif/evidence/*.json)"""
import json,glob,os,sys
rows=[]
root=sys.argv[1] if len(sys.argv)>1 else '/verif/evidence'
for f in sorted(glob.glob(root+'/C*.json')):
    e=json.load(open(f)); c=e['coverage']
    faults=sum(c.get('faults_fired',{}).values())
    rows.append((e['property_id'], e['tier'], c['evaluations'], c['distinct_nontrivial'], round(e['wall_s'],1), c.get('runs_per_hour',0), round(c.get('sim_time_ms',0)/3.6e6,1), len(c.get('faults_fired',{})), faults, len(c.get('known_findings_seen',[]))))
print("| id | tier | runs | distinct non-trivial | wall s | runs / hour | simulated hours | fault kinds fired | fault events | known findings seen |")
print("|---|---|---|---|---|---|---|---|---|---|")
for r in rows: print("| "+" | ".join(str(x) for x in r)+" |")
