#!/bin/bash
# run_seeded.sh <name> <property-id> [tier] [extra simctl args]: applies the seeded change to /repo, runs
# the property's check, and restores /repo. Prints the check's tail. Never leaves /repo modified.
set -u
# /repo is shared with other check runs: serialise on a lock
exec 9>/tmp/repo.lock
flock 9
N="$1"; ID="$2"; TIER="${3:-quick}"; shift; shift; shift || true
P=/verif/seeded/$N/patch.diff
if [ -n "$(git -C /repo status --porcelain)" ]; then echo "/repo not clean"; exit 2; fi
git -C /repo apply "$P" || { echo "APPLY-FAILED"; exit 2; }
VERIF_OUT_DIR=/tmp/seeded-out /verif/verifctl check "$ID" "$TIER" "$@" 2>&1 | tail -12
rc=${PIPESTATUS[0]}
git -C /repo checkout -- .
git -C /repo status --porcelain
echo "run_seeded $N $ID rc=$rc"
exit 0
