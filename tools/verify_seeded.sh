#!/bin/bash
# verify_seeded.sh <name>: in a scratch worktree of /repo's HEAD (removed afterwards)
#  1. /verif/seeded/<name>/patch.diff applies and the workspace builds,
#  2. the stable baseline suite passes with it (tools/baseline.sh, guard off),
#  3. the demonstration (demo.rs, appended to the file its header names) is run with and without the
#     change; both outputs go to /verif/seeded/<name>/verify.txt for comparison.
set -u
N="$1"
D=/verif/seeded/$N
P=$D/patch.diff
W=/tmp/vs-$N
export CARGO_NET_OFFLINE=true
unset RUSTFLAGS
git -C /repo worktree remove --force "$W" 2>/dev/null
git -C /repo worktree add -q --detach "$W" HEAD || exit 2
if ! git -C "$W" apply "$P"; then echo "APPLY-FAILED"; git -C /repo worktree remove --force "$W"; exit 2; fi
{
echo "== baseline with the change (guard off)"
REPO_DIR="$W" /verif/tools/baseline.sh
echo "baseline rc=$?"
if [ -f "$D/demo.rs" ]; then
  T=$(grep -o 'saito-[A-Za-z0-9_/.-]*\.rs' "$D/demo.rs" | head -1)
  F=$(grep -o 'c[0-9][0-9][a-z0-9_]*_demo' "$D/demo.rs" | head -1)
  echo "== demonstration: appended to $T, filter ${F:-_demo}"
  if grep -q 'mod c[0-9][0-9][a-z0-9_]*_demo' "$D/demo.rs"; then
    cat "$D/demo.rs" >> "$W/$T"          # self-contained test module: goes to the end of the file
  else
    # a bare test function: goes inside the file's trailing `mod tests { ... }`, before its closing brace
    python3 - "$W/$T" "$D/demo.rs" <<'PY'
import sys
t,d=sys.argv[1],sys.argv[2]
s=open(t).read(); i=s.rstrip().rfind('}')
open(t,'w').write(s[:i]+"\n"+open(d).read()+"\n"+s[i:])
PY
  fi
  echo "-- WITH the change"
  (cd "$W" && timeout 1800 cargo test --offline -p "${T%%/*}" --lib -- "${F:-_demo}" --nocapture --test-threads 1 2>&1 | grep -v "^warning\|^ *|\|^ *=\|^ *-->\|^$" | tail -90)
  git -C "$W" apply -R "$P"
  echo "-- WITHOUT the change"
  (cd "$W" && timeout 1800 cargo test --offline -p "${T%%/*}" --lib -- "${F:-_demo}" --nocapture --test-threads 1 2>&1 | grep -v "^warning\|^ *|\|^ *=\|^ *-->\|^$" | tail -90)
fi
} > "$D/verify.txt" 2>&1
git -C /repo worktree remove --force "$W"
git -C /repo worktree prune
grep -E "baseline rc|REGRESSIONS|test result|VERDICT|panicked" "$D/verify.txt" | head -20
