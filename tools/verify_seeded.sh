#!/bin/bash
# verify_seeded.sh <name>: checks that /verif/seeded/<name>/patch.diff applies to /repo's HEAD, compiles
# and passes the stable baseline suite, in a scratch worktree that is removed afterwards.
set -u
N="$1"
P=/verif/seeded/$N/patch.diff
W=/tmp/vs-$N
git -C /repo worktree remove --force "$W" 2>/dev/null
git -C /repo worktree add -q --detach "$W" HEAD || exit 2
if ! git -C "$W" apply "$P"; then echo "APPLY-FAILED"; git -C /repo worktree remove --force "$W"; exit 2; fi
REPO_DIR="$W" /verif/tools/baseline.sh
rc=$?
git -C /repo worktree remove --force "$W"
git -C /repo worktree prune
echo "verify_seeded $N rc=$rc"
exit $rc
