#!/usr/bin/env python3
"""Generates /verif/MANIFEST.json from the table below (single source of truth)."""
import json, subprocess, os
ROOT = os.path.dirname(os.path.dirname(os.path.abspath(__file__)))

def hook_commits():
    out = subprocess.run(["git", "-C", "/repo", "log", "--format=%h %s"], capture_output=True, text=True).stdout
    return [l.split()[0] for l in out.splitlines() if "verif hook" in l]

CLAIMED = {
 "C09": dict(
   level="exploration",
   text="(A) seeded sweep of structurally valid values over 14 format families (all slip / transaction types, 0..255 slips, empty to multi-KiB payloads, 0-5 hops, extreme integers, every message tag, handshake, ghost chain, key lists, services, wallet file, version, Full/Header blocks): predicted size, decode, field equality, byte-identical re-encoding, unchanged hash and signature verdict; every message form is also delivered to a live node. (B) seam monitor on a real producer + observer network: every delivered message re-encodes to itself; every block file the observer writes decodes, generates, re-encodes identically, carries the hash of its file name and equals the producer's bytes; tip and stored hashes survive a crash-free restart. Later additions: all signed header fields of the random blocks are random; the lite form of each random block crosses the wire and must keep the block's hash. Rounds 5-6: every numeric header field of the random blocks has its own value. Rounds 8-9: multi-byte UTF-8 in urls and domains.",
   design="§6 C09, §7",
   note="Reduced scope (DESIGN §7): the quantifier over all structurally valid values is sampled by a seeded generator; the simulation-decided half is identity preservation across the real send/receive, disk and restart seams.",
   technique="deterministic simulation: round-trip / identity monitor at the simulated wire and disk seams + seeded value sweep"),

 "C18": dict(
   level="exploration",
   text="One block with n ordered zero-fee payments of which a chosen subset pays the light client's key: every (n, pattern) for n = 0..6/8 enumerated first, then random n <= 24/40 with 0-2 extra listed keys. The lite block is produced by the same core calls as the fetch route and checked before and after the wire: id, hash, signature and every header field equal the full block's; every transaction touching a listed key is carried unmodified; hash unchanged by the wire; merkle root recomputable from the lite block's own transactions. In a fraction of the runs a real SPV node performs handshake, ghost-chain request and lite-block fetch against a real full node and must end up storing the block under the advertised hash. Later additions: projection of a copy of the block with every signed header field non-zero; after-wire comparison of the kept transactions' outputs including ledger coordinates. Rounds 5-6: projection of the block after its transactions were pruned from memory keeps the signed header and the hash. Round 7: a listed key that only sends (sweeps).",
   design="§6 C18",
   note="Reduced scope (DESIGN §7): the quantifier over blocks/key lists is enumerated only for the small space and sampled beyond. Fetch route is a stub re-using the core calls of saito-rust's warp route.",
   technique="deterministic simulation: full node + SPV node over a simulated lite-block fetch route, projection monitor; enumerated touch patterns"),

 "C19": dict(
   level="exploration",
   text="Producer chain (genesis period 4..8 or 100) feeding a wallet node (real Blockchain + Wallet): 5..40/150 seeded events (payments to the wallet key, transactions built through Transaction::create / create_with_multiple_payments with random, total, excessive and zero amounts, confirmation, delay, dropping, a competing fork that un-confirms, window expiry with rebroadcast). After every event: balance == sum of unspent slips, every unspent key in the slip table; until the first reorganisation the unspent set equals the reference ledger's in-window outputs of the key minus inputs committed to pending wallet transactions; every wallet-built transaction has distinct inputs, outputs <= inputs (u128) and validates against the ledger it was built on. Later additions: an ordinary transaction with txs_replacements != 1 accompanies a third of the payments to the wallet. Rounds 5-6: reorganisations of depth 1..prune depth+2 with prune depth 1/2/3/8; staking family at the wallet's interface (stakes assembled from stake outputs topped up with ordinary ones). Round 7: restore of a fresh wallet from the node's balance snapshot at the end of every run; stakes never select outputs below their validity bound. Rounds 8-9: a slip the wallet already holds handed to it again.",
   design="§6 C19",
   note="Trusted: reference ledger of the producer chain. NFTs are not generated; staking only in the wallet-interface family.",
   technique="deterministic simulation: seeded payment/spend/confirm/drop/reorg/expiry histories through a real node + wallet-vs-ledger model"),

 "C20": dict(
   level="exploration",
   text="A producing full node, 0..2 observers (one optionally SPV) that dial, handshake and sync, a wallet and up to 4 external peers that connect, (mis)authenticate, request chains / ghost chains, send key lists, services, transactions, announce blocks whose bodies are garbage / a different block / an invalid block, and leave; 10..60/160 scripted operations per run. Hook H5 logs every lock request of saito-core code with the locks the task holds: no request for a rank while a later rank is held (configs 3 < blockchain 4 < mempool 5 < peers 6 < wallet 7) unless a write-held earlier lock serialises every observed opposite-order acquisition; no re-request of a held lock with a writer involved. In 5 of 6 runs the four processors of a node run as concurrent tasks (event handler, timer call or statistics call each) under a seeded poll-level scheduler that may suspend a task before every lock request and inside every I/O call; unfinished tasks with none woken = deadlock, reported with holders and awaited locks. Scope: saito-core paths the simulator drives (84 of the 93 acquisition sites present in non-test source; tools/lock_sites.py lists them); saito-rust, saito-spammer and the saito-wasm gate are not run. Rounds 8-9: checkpoint file for a block re-fetched after a lost tip-file at observer restarts.",
   design="§6 C20, §7",
   note="Trusted: hook H5 (wrapper records at request time; ranks by type name). Dynamic: only executed paths are judged.",
   technique="deterministic simulation: lock-rank monitor over seeded multi-node workloads + seeded poll-level interleaving of the processors with deadlock detection"),

 "C14": dict(
   level="exploration",
   text="One real node (consensus processor with timer-driven bundling and the real mempool): 4..40/120 seeded operations mixing transaction arrivals (valid, two-input, conflicting, duplicate), staging and bundling ticks, peer blocks that confirm / partially spend / conflict with pooled transactions, invalid peer blocks and a peer fork that reorganises away the last block. After every operation a reference view of the pool is checked: no shared inputs, every pooled transaction valid against the ledger, reservations subset of pooled inputs, routing-work cache exact, bundling all-or-nothing, and an active probe that an unreserved unspent output can be spent by a fresh transaction. Later additions: payments routed to the node (routing work cache), two-input transaction conflicting on its second input, sibling of the tip spending a reserved input, reservations must equal the pooled inputs (both directions). Rounds 5-6: a refused block under the node's own key whose transactions are handed back to the pool. Rounds 8-9: nodes that joined mid-chain; transactions whose input a held block already spent. After round 9: a staking family (one run in six) - a self-started producer with social staking on whose staking transaction goes into every block through the pool, payments by the producer's own key, and an Issuance-typed pool entry that makes the next bundled block one the node refuses; same oracle plus: no staking transaction left in the pool at a quiescent point, and a bundled block is refused only when the pool held that entry or a payment under the producer's own key.",
   design="§6 C14",
   note="Trusted: reference ledger, universe builder for peer blocks; the probe transaction is removed again after the probe.",
   technique="deterministic simulation: seeded interleavings of pool / bundling / peer-block / reorg operations + reference pool model with active spendability probe"),

 "C07": dict(
   level="exploration",
   text="Real producer node (genesis from an issuance file, timer-driven bundling through the real mempool incl. staking transaction, golden tickets from the real MiningThread with seeded nonces) plus 1-2 independent observer nodes that learn of blocks only through announce -> fetch -> verify -> add, and a scripted wallet submitting payments (random fees, routed, conflicting pairs, dust) through the producer's routing/verification path; genesis period 3..100, heartbeat 0.2..5 s, three issuance scales; producer clock skew, observer crash+restart. Oracle: no panics, every bundled block becomes the producer's tip, every connected observer is on the producer's tip at quiescence. Later additions: rival producer (valid competing block built on the producer's tip by an independent replica, delivered as a fetched peer block); social staking enabled in a quarter of the network-family runs; block fetches complete in request order. Rounds 5-6: chain family with producer prune depth 1/2/3/8 (payout and rebroadcast inputs read back from disk).",
   design="§6 C07",
   note="Trusted: SimNet/fetch-server stubs, scripted wallet. Event-granularity scheduling; staking off. The producer-chain builder used by C02/C12/C13 additionally reports 'producer refused own block' as a probe.",
   technique="deterministic simulation: real producer (timer, mempool, miner) + independent observer nodes on a simulated network, adoption/convergence oracle under clock skew and restarts"),

 "C12": dict(
   level="fault_enumeration",
   text="Histories (producer chain over genesis period 3..6 with rebroadcast, pruning and purge, optional side fork) delivered to a real full node whose simulated disk journals every write/remove; every journal prefix x tear class {absent, empty, header cut, half, all-but-last-byte, complete} of the next operation is a crash image on which a brand-new node runs the real start-up (Wallet::load, ConsensusThread::on_init, delete_old_blocks on/off). Oracle: no panic; restarted tip was given to the node before the crash point; in-window spendable value equals the reference ledger at that tip; conservation equation; clean shutdown restarts at the same tip; the node adopts the next three blocks. Later additions: second crash during the start-up's own storage operations; clean restart after recovery + three blocks; histories in which the main chain wins by a reorganisation through a block received while it was the shorter branch. Rounds 5-6: for the clean image of fork histories: restart, the stored side branch overtakes the main chain, restart again. Round 7: a late competing block at the purge horizon; histories with blocks 6-9 s apart (steep burn-fee decay). Rounds 8-9: side block as a sibling of the tip; the restarted node's miner must have been handed the tip.",
   design="§6 C12",
   note="Trusted: journal/tear model (process death; write_value = truncate+write without fsync/rename as in RustIOHandler), reference ledgers of the producer. Quick tier enumerates the images of 100 histories (12 chunks of 24 images each); thorough 5000 histories.",
   technique="deterministic simulation: storage-journal crash-point x torn-write enumeration with real restart path and ledger/supply/liveness oracle"),

 "C11": dict(
   level="exploration",
   text="Node under test (all four real processors, timer-driven bundling and mining) with an honest scripted peer and an attacker holding an authenticated or unauthenticated connection plus a second unauthenticated one: 3..25/80 moves, two thirds hostile from a 22-entry catalogue (every odd message tag, storms, second handshake with another key, announcements answered with garbage or with well-formed hostile blocks, hostile transactions, reconnect storms) interleaved with honest blocks/transactions, timer rounds and clock jumps; the system runs to quiescence after each move. Oracle: no handler panics, quiescence within the step cap, and after a hostile move the digest of tip / stored blocks / spendable set / pool / honest peer entry / its key mapping is unchanged. Later additions: hostile kinds typed-tx-odd-shape, unparsable-signature, hostile-block-huge-replacements; per-move allocation oracle (128 MiB). Rounds 5-6: hostile blocks same-input-twice and id-zero-parent (the latter is the orphan class: known finding); one run in eight starts with an empty chain; one run in three ends with a restart from the node's own disk. Rounds 8-9: log statements evaluated at error level always and at debug level in an eighth of the runs; arithmetic overflow checks on; traffic during clock-back moves.",
   design="§6 C11",
   note="Trusted: scripted peers, hostile-block construction (universe builder + reseal). Orphan deliveries are not generated here. Event-granularity scheduling.",
   technique="deterministic simulation: seeded hostile-peer message/fetch/connection sequences interleaved with honest traffic, panic/stall/state-digest oracle"),

 "C10": dict(
   level="fault_enumeration",
   text="Catalogue of 26 valid encodings produced by a real history (every message tag, blocks, transaction, slip, hop, golden-ticket payload, wallet file, block file, fetched buffer); for each: ALL truncation lengths, every 4-byte window of the first 400 / last 20 bytes set to 11 boundary values and true value +-1, seeded bit flips and random strings. Every variant goes to the decoder directly (no panic; peak allocation <= 16*len + 1 MiB measured by a counting allocator) and through the real entry point of a live node (IncomingNetworkMessage from an authenticated peer followed to quiescence, BlockFetched buffer, file present at restart). Rounds 8-9: buffers of every length up to 160 filled with 0x00 / 0xff.",
   design="§6 C10",
   note="Trusted: counting allocator; catalogue construction. Truncations and u32 windows are enumerated completely for the catalogue in both tiers; bit flips / random strings are sampled (more chunks in thorough).",
   technique="deterministic simulation with enumerated byte-corruption faults at the wire and disk seams (direct decoders + real handlers)"),

 "C16": dict(
   level="exploration",
   text="One real node (routing/verification/consensus) with 2-3 scripted peers authenticated through the real handshake; 5..60/200 seeded operations (announce by any peer in any height order incl. the same block by several peers and unknown hashes, timer rounds, fetch completions with the right / undecodable / wrong block, fetch failures, disconnects), everything driven through the routing layer. Oracle at the I/O boundary after every operation: in-flight per peer <= batch size, no (peer, hash) in flight twice, no never-requested lower height skipped, every announced real block requested or present after faults stop, at most 501 requests per peer for a block that always fails. Later additions: fetch request from the consensus processor plus the peer's announcement within one round; in-flight = pending minus the new requests. Rounds 5-6: the consensus processor's request for a missing parent without any announcement (only the timer round can serve it). Round 7: a third of the runs with initial_loading_completed and children served before their parents. Rounds 8-9: retries really run out (1100 rounds), then the peers that gave up announce a new block.",
   design="§6 C16",
   note="Trusted: scripted peers and the definition of in-flight (requested via InterfaceIO, not yet completed by the simulated controller). Fetches of children whose parent is unknown are failed by the scripted server so that the orphan known finding does not interfere.",
   technique="deterministic simulation: seeded announce/complete/fail/timer sequences through the routing layer + in-flight reference model at the I/O boundary"),

 "C17": dict(
   level="exploration",
   text="Honest nodes A (dials out) and B (accepts) with the real routing/Network/Peer handshake code; the attacker is the network between them and may open further connections: 2..8/12 moves from 17 kinds (forward, drop, replay, reflect, redirect, own-key answer, unsolicited / self-signed / other-connection / used-challenge / wrong-version answers, own challenge, open, close). After every delivery to an honest node a provenance monitor checks that Connected-under-K only follows a response on that very connection signed by K over an outstanding challenge this node sent there, at most once per challenge, never the node's own key, and that authenticated peers and the key->connection mapping are undisturbed by messages that authenticate nobody. Later additions: A re-dials its static peer on the same peer index (challenges die with the connection); all-zero attacker challenges. Rounds 5-6: responses stating an incompatible core version never connect (a third of the runs with lite nodes); address_to_peers never names a connected peer that holds another key. Rounds 8-9: an entry carries a public key only after that key authenticated on the connection.",
   design="§6 C17",
   note="Trusted: monitor's bookkeeping of challenges seen leaving each honest node; sign/verify primitives. Attacker never holds an honest private key. Event-granularity scheduling.",
   technique="deterministic simulation: Dolev-Yao-minus-forgery attacker on a simulated network + handshake provenance monitor"),

 "C15": dict(
   level="exploration",
   text="Two real full nodes (routing, verification, consensus processors) on SimNet with a fetch server over the peer's simulated disk: real handshake, BlockchainRequest, header-hash stream, fetches, verification, add. Seeded chain pairs (shared prefix 0..35/120 covering zero to several fork-id checkpoints, syncer suffix 0..8/30, peer suffix longer) x fetch batch size x seeded scheduling of every pending item x faults (duplicates, failed fetches, forced disconnect + reconnect, FIFO or any-order fetch completion). Oracle: peer announces every block after the true fork point; after faults stop the syncer reaches the peer's tip within 80 timer rounds; no processor panics. Later additions: syncer configured with initial_loading_completed = true (park-and-retry) in a third of the runs; never-announced blocks judged before the orphan classification; long-chain family (peer chain longer than its block ring, empty syncer). Round 7: long-chain family with a park-and-retry syncer genesis period + 2 behind and any-order fetch completion. Rounds 8-9: near-collision of fork-id slots (syncer's checkpoint block ground to share exactly the first hash byte with the peer's).",
   design="§6 C15",
   note="Trusted: SimNet/fetch-server stubs mirroring saito-rust's network controller; handlers run to completion (event-granularity interleaving, not await-point interleaving). Runs in which a child is fetched before its parent fall into the orphan known-finding class and are reported under their own signatures. 16-bit fork-id collisions ignored.",
   technique="deterministic simulation: two-node simulated network + fetch server, seeded schedules and network/fetch faults, bounded-liveness convergence oracle"),

 "C08": dict(
   level="exploration",
   text="Two seeded families through the real add_block. Work gate: one transaction set (fee classes x 8 routing-path shapes incl. forged, non-contiguous, self-hop, not ending at the creator) bundled at two timestamp offsets around the thresholds, each offered to a fresh replica; accepted => paths valid and independently computed u128 work >= parent burn fee / offset; acceptance monotone in the offset; no work needed from two heartbeats on. Payouts: routed fee-paying histories with three ticket patterns; every Fee-transaction output goes to the ticket solver, a hop recipient or a path-less sender of the blocks being paid, and the sum does not exceed the fees those blocks collected. Later additions: paths through the creator that end elsewhere; replica that joined at the parent; rounding-boundary runs (fee = integer part of burn fee / elapsed where the fraction is 0.6..0.95). Rounds 5-6: ticket-in-every-block pattern (difficulty rises); rival blocks whose golden ticket does not solve the parent's lottery (4 kinds) must be refused; a ticket solved by one key and relayed inside another key's golden-ticket transaction pays the solver. Round 7: stake-typed fee-paying transactions and fee-paying golden-ticket transactions with every routing-path shape. Rounds 8-9: rebroadcast family (no routed transaction; a hop attached to rebroadcast transactions must not count); blocks validated during a reorganisation away from a low-burn-fee tip.",
   design="§6 C08",
   note="Trusted: oracle's work computation and eligibility rule (written from the property statement), signature verification primitive. The converse (sufficient work => accepted) is only counted, not demanded.",
   technique="deterministic simulation: seeded routing-path/timestamp-offset injection with independent work and payout-eligibility oracles"),

 "C06": dict(
   level="exploration",
   text="Seeded histories; the block at a seeded position is edited (10 edits: reorder/replace/add/remove/duplicate transactions or change a payload under the unchanged signed header; re-sign with another key; change creator/timestamp/treasury without re-signing), the edited block goes to node A and the original to node B through the decode+generate path, then the rest of the history to both. Oracles: same hash + different ordered transaction list is never accepted; header edits change the hash or are rejected (and never accepted under a new hash without a valid creator signature); same tip hash on two nodes implies identical spendable sets. Later additions: receiving nodes synced / joined mid-chain / fresh (edited block #1); slip-less SPV stub insertion; all transactions removed; restart stage (edited block stored as a sibling, written to disk unvalidated, node restarted from its disk). Rounds 5-6: leaf-limit family (producer block whose merkle tree has exactly MAX_MERKLE_TREE_LEAVES leaves or one fewer, then a list edit that keeps the leaf total). Round 7: a quarter of the runs let the receivers run under the stated creator's key.",
   design="§6 C06",
   note="Trusted: edit catalogue and the comparison of ordered transaction lists; universe builder for the honest history.",
   technique="deterministic simulation: two-node history replay with post-signing block edits, same-hash/same-ledger oracle"),

 "C13": dict(
   level="exploration",
   text="Seeded histories of 2-4 retention windows on a real producer (genesis period 3..8) with spent/unspent/dust outputs and three fee levels; for every accepted block past the first window its rebroadcast transactions are matched one-to-one against the reference ledger's unspent outputs of the block that just left the window (identity, owner, amount bounds, nothing foreign, nothing twice) and value conservation across the edge is checked in u128; outputs older than the window are then offered as inputs through the pool and inside a block. Later additions: NFT groups (created, rebroadcast as a group with both bound slips unchanged, or collected); a fork at an early height whose orphaned sibling was stored first. Round 7: the amount charged by a rebroadcast equals transaction size x the parent's average fee per byte; collected outputs do not cover that fee.",
   design="§6 C13",
   note="Trusted: reference ledger; header fields total_fees_atr/total_payout_atr are read from the accepted block. NFT bound triples and staking not generated; disk faults on the expiring block file not injected here.",
   technique="deterministic simulation: seeded window-wrapping histories + per-output rebroadcast ledger oracle, expired-input injection"),

 "C02": dict(
   level="exploration",
   text="Seeded long histories on a real producer node (genesis period 3..10, up to 30/120 blocks, fee classes, 0-2 hop paths, four golden-ticket patterns, three issuance scales, rebroadcasts after the window wraps), one third with a competing fork built by a second producer and delivered to an observer (reorganisation across payouts/rebroadcasts), one quarter with a transaction whose output sum wraps 2^64 through pool or block. After every accepted block, on every node: conservation equation in u128, node's in-window value == reference replay, no accepted user transaction with outputs > inputs. Later additions: NFT (Bound-Normal-Bound) creation in about one block of five; hostile value-bearing golden ticket and NFT overspend through pool and block; optional tickets stop at difficulty 10 (the harness miner pays 2^difficulty). Rounds 5-6: hostile spend of the smallest output of block tip - genesis period (the one the next block's rebroadcast pass collects). Round 7: the window-edge spend also under the staking type.",
   design="§6 C02",
   note="Trusted: reference ledger and u128 arithmetic of the oracle. Staking off; timestamps >= 2 heartbeats apart. Fork depth < genesis period (deeper forks are the orphan case of C03/C05).",
   technique="deterministic simulation: seeded long-history generation incl. reorgs + u128 conservation oracle, adversarial amount injection"),

 "C01": dict(
   level="exploration",
   text="Seeded search over honest histories (fresh / after a reorganisation, 2..10/25 blocks) x a 15-entry catalogue of hostile transaction edits x entry path (pool, block as next tip, block on a side fork that becomes the longer candidate) x transaction position. Oracles: hostile tx absent from the pool, hostile block never on the longest chain, and an independent scan of the node's longest chain against the reference ledger (every value-carrying input spendable at that point and owned by the signer). The honest twin must be accepted or the run does not count. Later additions: ATR-typed transaction with plain outputs, double spend across transactions behind a zero-amount input, nodes with prune depth 1/2 and side forks of 2-4 blocks, outputs that only existed on the abandoned fork offered as inputs. Rounds 5-6: fourth entry path (hostile block on top of an honest stored sibling, i.e. the second block of the candidate chain); the spendable set is compared across every rejected block. Round 7: histories of depth 0 and 1 (hostile block #2). Rounds 8-9: first spender of a double spend typed BlockStake.",
   design="§6 C01",
   note="Trusted: reference ledger, edit catalogue, universe builder. Genesis period >> depth here (expired inputs: C13); staking off.",
   technique="deterministic simulation: seeded history x adversarial-edit injection through pool and block paths, reference-ledger oracle"),

 "C03": dict(
   level="exploration",
   text="Seeded search over block trees x delivery orders (all parent vectors of <=4 (quick) / <=5 (thorough) non-genesis blocks x all delivery permutations enumerated first, then random trees up to 15/30 blocks with duplicates, invalid tips and rare orphan-first orders) through the real Blockchain::add_block; after every delivery the spendable set, by-height index, on-chain flags and tip are compared with an independent replay of the reported chain. Sampling beyond the enumerated prefix: evidence, not proof. Later additions: prune depth 1/2/3/8 and a deep single-reorganisation style (branch A completely, then the longer branch B), so that unwinding re-reads Pruned blocks. Rounds 5-6: long-chain family: producer chain with genesis period 3..6 grown to 1-3 times the block ring, an invalid block refused before the ring wraps over its slot, a reorganisation after the wrap; index judged for every id from 1 to tip + ring. Rounds 8-9: a parentless block of exactly the tip's height counts as the orphan class only through its later children (class decided by ancestry).",
   design="§6 C03",
   note="Trusted: the reference ledger (BTreeMap over independently recomputed utxo keys), the SimIo in-memory disk, the vendored ahash with fixed seeds. Genesis period >> tree height (window edge belongs to C13).",
   technique="deterministic simulation: seeded block-tree/delivery-order search + reference-ledger replay oracle"),
 "C04": dict(
   level="exploration",
   text="Seeded search over (shared prefix, main chain 0..4/10, candidate chain longer than main, position and kind (11 header/fee-tx edits) of the invalid candidate block, prune depth, disk read fault on the n-th block-file read). Full observable snapshot (tip, spendable set, index, stored blocks+flags, wallet) compared before/after every call that does not add the block; wind/unwind loop under a step budget proportional to the two segments; node must extend its chain afterwards. Later additions: bad blocks that are invalid through a double-spend / phantom input; candidate on the tip whose second block arrives first (multi-block candidate, empty old segment); ring family (genesis period 3..6, block K before K-1, invalid child of K, K on / next to a multiple of the ring size). Rounds 5-6: every (id, hash) entry of the block ring is part of the before/after snapshot; the ring family's known-finding exemption covers only the slot of the block that was wound and unwound. Rounds 8-9: every field of every wallet slip in the snapshot.",
   design="§6 C04",
   note="Trusted: snapshot code, tamper catalogue (blocks re-signed so only validation can notice), SimIo read-fault injection. Transaction-level invalidity is judged by C01. Block cache type (Pruned/Full) not compared.",
   technique="deterministic simulation: seeded fork-shape x invalid-position search with disk read-fault injection, before/after snapshot oracle, step-budget hook"),
 "C05": dict(
   level="exploration",
   text="Seeded search over block trees (two forks, lighter-but-longer, equal-length, invalid block at any position with honest children on top, ticket-sparse interior, random) x delivery orders; reference fork-choice monitor after each delivery: height monotone; tip moves only to strictly longer, >= burn fee, valid-by-construction, ticket-dense chains; qualifying chains must be adopted; orphan deliveries must not disturb tip/index. Later additions: style sparse-deep (ticket-poor window more than six blocks below the challenger's tip), prune depth 1/2/3, panics after an orphan delivery classified under the orphan finding. Rounds 8-9: burnfee-floor style (exact burn-fee ties).",
   design="§6 C05",
   note="Trusted: validity by construction (honest builder output valid; edited block and descendants invalid), burn fee read from headers of honest blocks, universe builder (stores blocks without fork choice).",
   technique="deterministic simulation: seeded block-tree/delivery-order search + reference fork-choice monitor"),
}

PLANNED_REASON = "check not built yet (planned in DESIGN.md §6; will be claimed once its scenario passes the determinism self-test)"

def main():
    props = [json.loads(l) for l in open(os.path.join(ROOT, "properties.jsonl"))]
    checks = []
    na = []
    for p in props:
        pid = p["id"]
        if pid in CLAIMED:
            c = CLAIMED[pid]
            checks.append({
                "property_id": pid,
                "quick_cmd": f"./verifctl check {pid} quick",
                "thorough_cmd": f"./verifctl check {pid} thorough",
                "evidence_file": f"/verif/evidence/{pid}.json",
                "replay_cmd_template": "./verifctl replay {path}",
                "engine": "simctl",
                "level_claimed": {"category": c["level"], "text": c["text"], "design_ref": c["design"]},
                "level_note": c["note"],
                "technique": c["technique"],
            })
        else:
            na.append({"property_id": pid, "reason": NA.get(pid, PLANNED_REASON)})
    m = {
        "version": 1,
        "setup_cmd": "./verifctl setup",
        "hooks": {
            "guard": "cfg(saito_verif)",
            "enable": "RUSTFLAGS=\"--cfg saito_verif\" (set by ./verifctl; the harness crate /verif/sim depends on /repo/saito-core by path)",
            "baseline_off_cmd": "/verif/tools/baseline.sh",
            "source_commits": hook_commits(),
            "add_only": True,
        },
        "engines": [{
            "name": "simctl",
            "path": "/verif/sim",
            "serves_properties": sorted(CLAIMED.keys()),
            "kind_free_text": "deterministic simulator: real saito-core behind SimIo/SimClock/SimConfig seams, seeded plans, worker processes with watchdog, plan minimisation, replay files",
        }],
        "checks": checks,
        "not_applicable": na,
        "notes": "Exit codes: 0 held (possibly KNOWN-FINDING lines), 1 VIOLATION, 2 harness error. VERIF_SEED selects the global seed (default fixed). Known findings: /verif/known_findings.jsonl.",
    }
    json.dump(m, open(os.path.join(ROOT, "MANIFEST.json"), "w"), indent=1)
    print("claimed:", sorted(CLAIMED.keys()), "unclaimed:", len(na))

NA = {}
if __name__ == "__main__":
    main()
