#!/bin/bash
# import_mut.sh <round> <id>...: copy a sub-agent's deliverables from /tmp/mut-out<round>/<id>/ to
# /verif/seeded/<id>-r<round>/, remove its scratch worktree, check that the patch applies to /repo's HEAD
R="$1"; shift
for i in "$@"; do
  mkdir -p /verif/seeded/$i-r$R
  cp /tmp/mut-out$R/$i/{patch.diff,demo.rs,demo.txt,meta.json} /verif/seeded/$i-r$R/ || echo "$i: deliverable missing"
  git -C /repo worktree remove --force /tmp/mut$R-$i 2>/dev/null
  out=$(git -C /repo apply --check /verif/seeded/$i-r$R/patch.diff 2>&1 | head -1); [ -n "$out" ] && echo "$i-r$R: $out"
done
git -C /repo worktree prune
