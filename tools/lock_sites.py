#!/usr/bin/env python3
"""coverage report only (never decides): which of the lock acquisition sites present in saito-core's
non-test source were exercised by the last C20 run (evidence/C20.json)"""
import re,os,json,sys
ev=json.load(open('/verif/evidence/C20.json'))
seen=set(k.split('|')[1] for k in ev['coverage']['probes'] if k.startswith('site|'))
allsites=[]
for root,_,fs in os.walk('/repo/saito-core/src'):
    for f in fs:
        if not f.endswith('.rs') or f=='verif.rs': continue
        p=os.path.join(root,f)
        if '/test/' in p: continue
        lines=open(p).read().split('\n')
        cut=len(lines)
        for i,l in enumerate(lines):
            if re.match(r'\s*mod tests?\s*\{',l) or '#[cfg(test)]' in l:
                cut=i;break
        for i,l in enumerate(lines[:cut]):
            if re.search(r'\.(read|write)\(\)\s*\.await',l):
                if l.strip().startswith('//'): continue
                allsites.append((f,i+1,l.strip()))
miss=[s for s in allsites if f"{s[0]}:{s[1]}" not in seen]
print("sites in source:",len(allsites),"exercised:",len(allsites)-len(miss))
for m in miss: print("  not exercised:",m)
print({k:v for k,v in ev['coverage']['probes'].items() if k.startswith('run_ended')})
