#!/usr/bin/env python3
"""adds my own verification summary and the catch record to /verif/seeded/<name>/meta.json
(keeps the sub-agent's fields). The catch record is what tools/run_seeded.sh printed (quick tier, default seed)."""
import json,os,re,sys
CATCH = {
 "C01": (["C01"], ["C01|accepted|foreign-extra-input|pool","C01|accepted|foreign-extra-input|block-tip","C01|accepted|foreign-extra-input|block-fork"], True, ""),
 "C02": (["C02"], ["C02|panic|blockchain.rs:cannot_continue_with_invalid_total_supply"], True, ""),
 "C03": (["C04"], ["C04|trace-left|spendable-set"], False, "C04: bad blocks that are invalid through a double-spend / phantom input (TX_INVALIDITY_KINDS)"),
 "C04": (["C04"], ["C04|trace-left|spendable-set"], False, "same strengthening as for seeded C03"),
 "C05": (["C05"], ["C05|moved|lighter-chain"], True, ""),
 "C06": (["C06"], ["C06|accepted-under-same-hash|*"], False, "C06: receiver states synced / joined-mid-chain / fresh-genesis"),
 "C07": (["C07","C14"], ["C07|producer-refused-own-block|network|other","C14|pool|routing-work-cache"], False, "C07: rival producer op; C14: routed fee transactions"),
 "C08": (["C08"], ["C08|accepted|insufficient-work"], False, "C08: path shapes through-creator, through-creator-3"),
 "C09": (["C09"], ["C09|decode-fails|block","C09|decode-fails|transaction|sweep"], True, ""),
 "C10": (["C10"], ["C10|panic|decoder|msg|…","C10|panic|decoder|tx|…","C10|panic|handler|msg|routing.process_network_event|…"], True, ""),
 "C11": (["C11","C17"], ["C11|panic|…|network.rs:peer_should_exist_here_since_it","C17|key-mapping-hijacked"], True, ""),
 "C12": (["C12"], ["C12|panic|restart|block-file-write|on_init|block.rs:range_end_index_out_of_range"], True, ""),
 "C13": (["C13"], ["C13|panic|blockchain.rs:cannot_continue_with_invalid_total_supply"], False, "C13: fork at an early height with the sibling stored first"),
 "C14": (["C14"], ["C14|pool|invalid-tx-after|reorg"], True, ""),
 "C15": (["C15"], ["C15|not-converged"], False, "C15: syncer configured with initial_loading_completed = true in a third of the runs"),
 "C16": (["C16"], ["C16|in-flight-exceeds-batch-size"], True, ""),
 "C17": (["C17"], ["C17|connected-without-valid-response","C17|key-mapping-hijacked"], False, "C17: move redial; challenges void once the node saw the disconnect"),
 "C18": (["C18"], ["C18|touching-tx-missing"], True, ""),
 "C19": (["C19"], ["C19|built-tx|spends-more-than-it-consumes|spend","C19|built-tx|spends-more-than-it-consumes|spend-multi"], True, ""),
 "C01-r2": (["C01"], ["C01|accepted|type-atr-plain-output|block-tip","C01|accepted|type-atr-plain-output|block-fork"], False, "C01: edit type-atr-plain-output"),
 "C02-r2": (["C04"], ["C04|trace-left|spendable-set"], True, "caught by C04 (same mechanism as seeded C03/C04); C02's own histories contain no failing reorganisation"),
 "C03-r2": (["C03"], ["C03|ledger|both","C03|ledger|extra","C03|panic|blockchain.rs:cannot_continue_with_invalid_total_supply"], False, "C03: prune depth 1/2/3/8 and deep-reorganisation style"),
 "C04-r2": (["C04"], ["C04|trace-left|tip"], False, "C04: candidate on the tip whose second block is delivered first"),
 "C05-r2": (["C05"], ["C05|moved|sparse-tickets-in-interior"], False, "C05: style sparse-deep"),
 "C06-r2": (["C06"], ["C06|accepted-under-same-hash|insert-spv-stub"], False, "C06: edit insert-spv-stub"),
 "C07-r2": (["C07"], ["C07|producer-refused-own-block|chain|atr-multiplier-1","C07|producer-refused-own-block|network|other"], True, ""),
 "C08-r2": (["C08"], ["C08|accepted|insufficient-work","C08|accepted|invalid-routing-path"], True, ""),
 "C09-r2": (["C09"], ["C09|re-encode-differs|message|api"], True, ""),
 "C10-r2": (["C10"], ["C10|alloc|decoder|block","C10|alloc|decoder|fetched","C10|alloc|decoder|msg"], True, ""),
 "C11-r2": (["C11"], ["C11|panic|typed-tx-odd-shape|verification.process_event|transaction.rs:index_out_of_bounds_the_len"], False, "C11: hostile kind typed-tx-odd-shape"),
 "C13-r2": (["C13"], ["C13|expired-output-spendable|pool","C13|panic|blockchain.rs:cannot_continue_with_invalid_total_supply"], True, ""),
 "C14-r2": (["C14"], ["C14|pool|stale-reservation-after|bundle","C14|pool|stale-reservation-after|stage"], False, "C14: op tx-conflict-2nd-input"),
 "C15-r2": (["C15"], ["C15|needed-block-never-announced"], False, "C15: never-announced blocks judged before the orphan classification"),
 "C16-r2": (["C16"], ["C16|same-block-in-flight-twice"], False, "C16: op request-then-announce; in-flight monitor made precise"),
 "C17-r2": (["C17"], ["C17|authenticated-as-itself"], True, ""),
 "C18-r2": (["C18"], ["C18|header-differs|other-header-field","C18|wire|hash-changed","C18|spv-sync|block-not-obtained"], True, ""),
 "C19-r2": (["C19"], ["C19|unspent-set-differs-from-ledger|missing"], True, ""),
 "C20-r2": (["C20"], ["C20|order|peers-held-then-blockchain|network.rs<-network.rs","C20|order|peers-held-then-config|network.rs<-network.rs","C20|deadlock|consensus:blockchain+config+mempool>peers|routing:config+peers>blockchain|…"], True, ""),
 "C01-r3": (["C03","C01"], ["C03|ledger|both","C01|accepted|type-atr|block-tip"], False, "caught by C03 as found; C01: prune depth 1/2, longer side forks, abandoned-fork outputs offered as inputs"),
 "C02-r3": (["C02"], ["C02|accepted|nft-overspend|pool","C02|panic|blockchain.rs:cannot_continue_with_invalid_total_supply"], False, "C02: hostile kinds gt-pays-out, nft-overspend"),
 "C03-r3": (["C04"], ["C04|trace-left|tip"], False, "C04: ring family (small genesis period, block K before K-1, invalid child of K)"),
 "C04-r3": (["C04"], ["C04|trace-left|tip"], True, "needs the ring family added for seeded C03-r3"),
 "C05-r3": (["C05"], ["C05|moved|onto-invalid-chain|*"], True, ""),
 "C06-r3": (["C06"], ["C06|accepted-under-same-hash|after-restart|*"], False, "C06: restart stage"),
 "C07-r3": (["C07"], ["C07|producer-refused-own-block|network|other"], True, ""),
 "C08-r3": (["C08"], ["C08|accepted|insufficient-work"], False, "C08: replica that joined at the parent"),
 "C09-r3": (["C09","C18"], ["C09|hash-changes-on-wire|lite-block","C18|header-differs|synthetic-nonzero-header"], False, "C09: lite form over the wire; C18: synthetic non-zero header projection"),
 "C10-r3": (["C10"], ["C10|panic|decoder|msg|ghost_chain_sync.rs:range_end_index_out_of_range"], True, ""),
 "C11-r3": (["C11"], ["C11|panic|unparsable-signature|routing.process_network_event|crypto.rs:called_Result_unwrap_on_an_Err"], False, "C11: hostile kind unparsable-signature"),
 "C12-r3": (["C12"], ["C12|clean-restart|tip-differs"], False, "C12: fork_first histories"),
 "C13-r3": (["C04"], ["C04|trace-left|tip"], False, "same source change as seeded C03-r3; caught by C04's ring family"),
 "C14-r3": (["C14"], ["C14|pool|reservation-missing-after|peer-side-conflict"], False, "C14: op peer-side-conflict and converse reservation oracle"),
 "C15-r3": (["C15","C16"], ["C15|not-converged","C16|announced-block-never-requested"], True, ""),
 "C16-r3": (["C16"], ["C16|announced-block-never-requested","C16|in-flight-exceeds-batch-size","C16|lower-height-skipped","C16|same-block-in-flight-twice"], True, ""),
 "C17-r3": (["C17"], ["C17|connected-without-valid-response"], False, "C17: all-zero attacker challenge"),
 "C18-r3": (["C18"], ["C18|wire|touching-tx-outputs-differ"], False, "C18: after-wire comparison of kept transactions' outputs"),
 "C19-r3": (["C19"], ["C19|built-tx|does-not-validate|spend","C19|unspent-set-differs-from-ledger|missing"], False, "C19: ordinary transaction with replacement count != 1 next to payments"),
 "C20-r3": (["C20"], ["C20|order|wallet-held-then-config|network.rs<-network.rs","C20|order|wallet-held-then-peers|network.rs<-network.rs"], True, ""),
 "C01-r4": (["C13"], ["C13|expired-output-spendable|pool"], True, "caught by C13 (window clause); C01's worlds use a large genesis period"),
 "C02-r4": (["C01"], ["C01|panic|blockchain.rs:cannot_continue_with_invalid_total_supply"], False, "C01: edit duplicate-input-across-txs-zero-lead"),
 "C03-r4": (["C03"], ["C03|index|wrong-at-height"], True, ""),
 "C04-r4": (["C04"], ["C04|trace-left|wallet"], True, ""),
 "C05-r4": (["C04","C05"], ["C04|trace-left|tip","C05|moved|not-strictly-longer","C05|not-adopted|qualifying-chain"], False, "caught by C04 as found; C05: prune depth 1/2/3"),
 "C06-r4": (["C06"], ["C06|accepted-under-same-hash|remove-all-txs"], False, "C06: edit remove-all-txs"),
 "C07-r4": (["C07"], ["C07|producer-refused-own-block|network|other"], False, "C07: social staking enabled in a quarter of the network-family runs"),
 "C08-r4": (["C08"], ["C08|accepted|insufficient-work|rounding-boundary"], False, "C08: rounding-boundary runs"),
 "C09-r4": (["C03"], ["C03|ledger|both","C03|panic|merkle.rs:called_Option_unwrap_on_None_value"], True, "caught by C03; C09 does not compare a restored block's derived data"),
 "C10-r4": (["C10"], ["C10|panic|decoder|msg|api_message.rs:range_end_index_out_of_range"], True, ""),
 "C11-r4": (["C11","C16"], ["C11|state-changed-by-hostile-input|header-hash-storm","C16|in-flight-exceeds-batch-size"], True, ""),
 "C12-r4": (["C12"], ["C12|clean-restart|tip-differs","C12|restart|ledger-differs"], True, ""),
 "C13-r4": (["C01"], ["C01|accepted|type-atr-plain-output|block-tip","C01|accepted|type-atr-plain-output|block-fork"], True, "caught by C01 (dishonest-producer input)"),
 "C14-r4": (["C13"], ["C13|expired-output-spendable|pool"], True, "caught by C13; C14's world has a large genesis period"),
 "C15-r4": (["C15"], ["C15|not-converged|peer-chain-longer-than-ring"], False, "C15: long-chain family"),
 "C16-r4": (["C16"], ["C16|unbounded-retries"], True, ""),
 "C17-r4": (["C17"], ["C17|connected-without-key"], True, ""),
 "C18-r4": ([], [], False, "NOT CAUGHT: the change is in saito-rust's HTTP route, which the simulator replaces by Sim::serve_fetch (DESIGN section 7)"),
 "C19-r4": (["C19"], ["C19|balance-differs-from-unspent-sum|receive","C19|balance-differs-from-unspent-sum|block-plain"], True, ""),
 "C20-r4": ([], [], False, "NOT CAUGHT: the change is in saito-spammer, which the simulator does not run (DESIGN section 7)"),
 "C01-r5": (["C04"], ["C04|trace-left|tip"], True, "caught by C04's ring family (same line as C03-r3/C13-r3); C01's worlds do not wrap the ring"),
 "C02-r5": (["C13","C02"], ["C13|expired-output-spendable|pool","C13|panic|blockchain.rs:cannot_continue_with_invalid_total_supply","C02|accepted|spend-at-window-edge|pool","C02|panic|blockchain.rs:cannot_continue_with_invalid_total_supply"], False, "caught by C13 as found; C02: hostile kind spend-at-window-edge"),
 "C03-r5": (["C03"], ["C03|panic|blockchain.rs:cannot_continue_with_invalid_total_supply"], True, ""),
 "C04-r5": (["C04"], ["C04|trace-left|index"], False, "C04: the known-finding exemption of the ring family now covers only the slot of the block that was wound and unwound (K, when the tip was K-1); before, it also absorbed the slot of K+1"),
 "C05-r5": (["C05"], ["C05|moved|sparse-tickets-at-tip","C05|moved|sparse-tickets-in-interior"], True, ""),
 "C06-r5": (["C06"], ["C06|accepted-under-same-hash|swap-two-txs","C06|accepted-under-same-hash|replace-tx-equal-fee"], False, "C06: leaf-limit family (producer block with exactly MAX_MERKLE_TREE_LEAVES / one fewer leaves)"),
 "C07-r5": (["C07"], ["C07|producer-refused-own-block|chain|atr-multiplier-1","C07|producer-refused-own-block|chain|no-atr","C07|producer-refused-own-block|network|other"], True, ""),
 "C08-r5": (["C08"], ["C08|payout|ticket-does-not-solve-parent|solved-against-genesis","C08|payout|ticket-does-not-solve-parent|solved-against-grandparent","C08|payout|ticket-does-not-solve-parent|solved-against-made-up-hash"], False, "C08: rival block with a golden ticket that does not solve the parent's lottery, at difficulty > 0 (ticket-in-every-block pattern)"),
 "C09-r5": (["C09"], ["C09|decode-fails|ghost-chain","C09|decode-fails|message|ghost-chain"], True, ""),
 "C10-r5": (["C10"], ["C10|panic|decoder|msg|handshake.rs:range_end_index_out_of_range"], True, ""),
 "C11-r5": (["C20"], ["C20|deadlock|consensus:blockchain+config>wallet|verification:wallet>blockchain","C20|order|wallet-held-then-blockchain|verification_thread.rs<-verification_thread.rs"], True, "caught by C20 (lock order / deadlock is its clause); C11 runs each handler to completion and cannot see a stall that needs two handlers interleaved between lock requests"),
 "C12-r5": (["C12"], ["C12|restart-after-recovery|tip-differs|stale-files-kept"], True, ""),
 "C13-r5": (["C13","C02"], ["C13|panic|blockchain.rs:cannot_continue_with_invalid_total_supply","C02|panic|blockchain.rs:cannot_continue_with_invalid_total_supply"], True, ""),
 "C14-r5": (["C14"], ["C14|pool|stale-reservation-after|peer-confirm","C14|pool|stale-reservation-after|peer-conflict","C14|pool|stale-reservation-after|peer-partial","C14|pool|stale-reservation-after|reorg"], True, ""),
 "C15-r5": (["C15","C16"], ["C15|not-converged","C16|announced-block-never-requested"], True, ""),
 "C16-r5": (["C16"], ["C16|lower-height-skipped"], True, ""),
 "C17-r5": (["C17"], ["C17|connected-despite-incompatible-version"], False, "C17: monitor clause for incompatible core versions; a third of the runs put A and/or B in lite mode"),
 "C18-r5": (["C18"], ["C18|touching-tx-missing","C18|wire|touching-tx-outputs-differ"], True, ""),
 "C19-r5": (["C19"], ["C19|built-tx|does-not-validate|spend","C19|built-tx|does-not-validate|spend-all","C19|built-tx|does-not-validate|spend-multi"], False, "C19: reorganisations of depth 1..prune depth+2 with prune depth 1/2/3/8 (unwinding blocks whose bodies were dropped)"),
 "C20-r5": (["C20"], ["C20|order|peers-held-then-blockchain|routing_thread.rs<-routing_thread.rs"], True, ""),
 "C01-r6": (["C04","C01"], ["C04|trace-left|index","C04|trace-left|spendable-set","C01|spendable-set-changed-by-rejected-block|block-fork-late"], False, "caught by C04 as found; C01: entry path block-fork-late (hostile block is the second block of the candidate chain) + spendable set unchanged by a rejected block"),
 "C02-r6": (["C02"], ["C02|panic|blockchain.rs:cannot_continue_with_invalid_total_supply"], True, ""),
 "C03-r6": (["C03"], ["C03|index|wrong-below-window"], False, "C03: long-chain family (genesis period 3..6, chain 1-3 times the block ring, index judged for every id)"),
 "C04-r6": (["C04"], ["C04|trace-left|tip"], True, ""),
 "C05-r6": (["C04","C03"], ["C04|trace-left|ring-entries","C03|panic|blockchain.rs:called_Option_unwrap_on_None_value"], False, "C04: every (id, hash) entry of the block ring is part of the before/after snapshot; C03 long-chain family: an invalid block is refused before the ring wraps over its slot"),
 "C06-r6": (["C06"], ["C06|accepted-under-same-hash|replace-tx-equal-fee","C06|accepted-under-same-hash|swap-two-txs"], True, ""),
 "C07-r6": (["C07"], ["C07|producer-refused-own-block|network|other"], True, ""),
 "C08-r6": (["C08"], ["C08|payout|ineligible-recipient"], False, "C08: the honest block's ticket is solved by one key and carried by a golden-ticket transaction signed by another"),
 "C09-r6": (["C09"], ["C09|re-encode-differs|block"], False, "C09: every numeric header field gets its own random value"),
 "C10-r6": (["C10"], ["C10|panic|decoder|msg|peer_service.rs:index_out_of_bounds_the_len","C10|panic|handler|msg|routing.process_network_event|peer_service.rs:index_out_of_bounds_the_len"], True, ""),
 "C11-r6": (["C11"], ["C11|panic|hostile-block-id-zero|consensus.process_event|block.rs:assertion_failed_self_id","C11|panic|restart|on_init|block.rs:assertion_failed_self_id"], False, "C11: node with an empty chain (one run in eight), id-0 block announced under its own id, final restart from the node's disk"),
 "C12-r6": (["C12"], ["C12|restart-after-reorganisation|tip-differs"], False, "C12: after a clean restart the stored side branch overtakes the main chain, then another clean restart"),
 "C13-r6": (["C13","C12"], ["C13|panic|blockchain.rs:cannot_continue_with_invalid_total_supply","C12|clean-restart|tip-differs"], True, ""),
 "C14-r6": (["C14"], ["C14|pool|invalid-tx-after|own-invalid"], False, "C14: op own-invalid (a refused block under the node's own key; its transactions are handed back to the pool) - which first exposed the unreserved hand-back fixed in 3fb9d58"),
 "C15-r6": (["C15"], ["C15|not-converged"], True, ""),
 "C16-r6": (["C16"], ["C16|announced-block-never-requested"], False, "C16: op request-only (the consensus processor's request for a missing parent without any announcement)"),
 "C17-r6": (["C17"], ["C17|key-index-names-peer-of-another-key"], False, "C17: invariant on address_to_peers after every delivery"),
 "C18-r6": (["C18"], ["C18|header-differs|body-less-source"], False, "C18: projection of the block after its transactions were pruned from memory"),
 "C19-r6": (["C19"], ["C19|balance-differs-from-unspent-sum|stake"], False, "C19: staking family at the wallet's interface"),
 "C20-r6": (["C20"], ["C20|order|wallet-held-then-peers|network.rs<-network.rs","C20|deadlock|consensus:blockchain+config+mempool+wallet>peers|routing:config+peers>wallet"], True, ""),
 "C01-r7": (["C01"], ["C01|accepted|type-issuance|block-tip","C01|accepted|type-issuance|block-fork"], False, "C01: histories of depth 0 and 1 (the hostile block is block #2 / a sibling of block #2)"),
 "C02-r7": (["C02","C03"], ["C02|supply|loss","C02|supply|inflation","C02|panic|blockchain.rs:cannot_continue_with_invalid_total_supply","C03|ledger|both","C03|tip|not-a-delivered-chain-tip"], True, ""),
 "C03-r7": (["C03"], ["C03|tip|not-a-delivered-chain-tip"], True, "caught by the long-chain family added in round 6 (reorganisation after the window wrapped)"),
 "C04-r7": (["C04"], ["C04|trace-left|tip"], True, ""),
 "C05-r7": (["C04"], ["C04|trace-left|tip"], True, "caught by C04's ring family (fourth change to this line of blockring.rs); C05's worlds do not wrap the ring"),
 "C06-r7": (["C06"], ["C06|header-edit-accepted|resign-with-other-key","C06|header-edit-accepted-under-new-hash|change-timestamp","C06|header-edit-accepted-under-new-hash|change-treasury-field"], False, "C06: a quarter of the runs let the receiving nodes run under the creator's key"),
 "C07-r7": (["C07","C09"], ["C07|observer-does-not-follow","C07|observer-refused-producer-block|chain","C09|re-encode-differs|block"], True, "C09 catches it through the header fields randomised in round 6"),
 "C08-r7": (["C08"], ["C08|accepted|invalid-routing-path","C08|accepted|insufficient-work"], False, "C08: the block's golden-ticket transaction pays a fee and carries one of the path shapes; stake-typed fee-paying transactions (which first exposed the unverified staking path fixed in ee569f6)"),
 "C09-r7": (["C09"], ["C09|decoded-value-differs|transaction|sweep","C09|re-encode-differs|transaction|sweep","C09|re-encode-differs|message|transaction","C09|re-encode-differs|block"], True, ""),
 "C10-r7": (["C10"], ["C10|panic|decoder|gt|golden_ticket.rs:range_end_index_out_of_range"], True, ""),
 "C20": (["C20"], ["C20|order|wallet-held-then-blockchain|verification_thread.rs<-verification_thread.rs","C20|deadlock|consensus:blockchain+config>wallet|verification:wallet>blockchain"], True, ""),
}
extra = {}
if os.path.exists('/verif/seeded/catch_extra.json'):
    extra = json.load(open('/verif/seeded/catch_extra.json'))
root='/verif/seeded'
for name in sorted(os.listdir(root)):
    d=os.path.join(root,name)
    mp=os.path.join(d,'meta.json')
    if not os.path.isdir(d) or not os.path.exists(mp): continue
    m=json.load(open(mp))
    v=os.path.join(d,'verify.txt')
    ver={}
    if os.path.exists(v):
        t=open(v).read()
        ver['applies_to_head']=True
        ver['stable_suite_regressions']=re.findall(r'REGRESSIONS: (\[.*?\])',t)[-1] if 'REGRESSIONS' in t else 'not run'
        parts=t.split('-- WITHOUT the change')
        if len(parts)==2:
            w=parts[0].split('-- WITH the change')[-1]
            ver['demo_with_change']='FAILED' if 'test result: FAILED' in w else ('see verify.txt' if 'test result: ok' in w else 'did not run')
            ver['demo_without_change']='ok' if 'test result: ok' in parts[1] else ('FAILED' if 'test result: FAILED' in parts[1] else 'did not run')
    m['verified_by_tools_verify_seeded']=ver
    c=CATCH.get(name) or extra.get(name)
    if c:
        m['caught_by_checks']=c[0]; m['signatures']=c[1]; m['caught_before_strengthening']=c[2]
        if c[3]: m['strengthening']=c[3]
    json.dump(m,open(mp,'w'),indent=1)
    print(name, ver, (c or ['?'])[0])
