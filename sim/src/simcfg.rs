//! SimConfig (`Configuration`) and SimClock (`KeepTime`).

use std::sync::atomic::{AtomicU64, Ordering};
use std::sync::Arc;

use saito_core::core::defs::Timestamp;
use saito_core::core::process::keep_time::{KeepTime, Timer};
use saito_core::core::util::configuration::{
    BlockchainConfig, Configuration, ConsensusConfig, Endpoint, PeerConfig, Server,
};

#[derive(Debug, Clone)]
pub struct SimConfig {
    pub server: Option<Server>,
    pub peers: Vec<PeerConfig>,
    pub blockchain: BlockchainConfig,
    pub consensus: ConsensusConfig,
    pub spv: bool,
    pub browser: bool,
    pub fetch_url: String,
}

impl SimConfig {
    pub fn new(genesis_period: u64, heartbeat: u64) -> SimConfig {
        let mut blockchain = BlockchainConfig::default();
        // the simulated disk should not fill with issuance snapshots unless a scenario wants them
        blockchain.issuance_writing_block_interval = 0;
        blockchain.initial_loading_completed = false; // production value: nothing ever sets it
        SimConfig {
            server: Some(Server {
                host: "sim".to_string(),
                port: 1,
                protocol: "http".to_string(),
                endpoint: Endpoint {
                    host: "sim".to_string(),
                    port: 1,
                    protocol: "http".to_string(),
                },
                verification_threads: 1,
                channel_size: 1000,
                stat_timer_in_ms: 5000,
                thread_sleep_time_in_ms: 10,
                block_fetch_batch_size: 10,
                reconnection_wait_time: 10_000,
            }),
            peers: vec![],
            blockchain,
            consensus: ConsensusConfig {
                genesis_period,
                heartbeat_interval: heartbeat,
                prune_after_blocks: 8,
                max_staker_recursions: 3,
                default_social_stake: 0,
                default_social_stake_period: 60,
            },
            spv: false,
            browser: false,
            fetch_url: "http://sim/".to_string(),
        }
    }
}

impl Configuration for SimConfig {
    fn get_server_configs(&self) -> Option<&Server> {
        self.server.as_ref()
    }
    fn get_peer_configs(&self) -> &Vec<PeerConfig> {
        &self.peers
    }
    fn get_blockchain_configs(&self) -> &BlockchainConfig {
        &self.blockchain
    }
    fn get_block_fetch_url(&self) -> String {
        self.fetch_url.clone()
    }
    fn is_spv_mode(&self) -> bool {
        self.spv
    }
    fn is_browser(&self) -> bool {
        self.browser
    }
    fn replace(&mut self, config: &dyn Configuration) {
        self.server = config.get_server_configs().cloned();
        self.peers = config.get_peer_configs().clone();
        self.blockchain = config.get_blockchain_configs().clone();
        if let Some(c) = config.get_consensus_config() {
            self.consensus = c.clone();
        }
        self.spv = config.is_spv_mode();
        self.browser = config.is_browser();
    }
    fn get_consensus_config(&self) -> Option<&ConsensusConfig> {
        Some(&self.consensus)
    }
}

/// simulated wall clock of one node: global simulated time + per-node offset (skew / jumps)
#[derive(Debug, Clone)]
pub struct SimClock {
    pub global: Arc<AtomicU64>,
    pub offset: Arc<AtomicU64>, // two's complement signed offset
}

impl SimClock {
    pub fn new(global: Arc<AtomicU64>) -> SimClock {
        SimClock {
            global,
            offset: Arc::new(AtomicU64::new(0)),
        }
    }
    pub fn set_offset(&self, off: i64) {
        self.offset.store(off as u64, Ordering::Relaxed);
    }
    pub fn now(&self) -> Timestamp {
        self.global
            .load(Ordering::Relaxed)
            .wrapping_add(self.offset.load(Ordering::Relaxed))
    }
    pub fn timer(&self) -> Timer {
        Timer {
            time_reader: Arc::new(self.clone()),
            hasten_multiplier: 1,
            start_time: 0,
        }
    }
}

impl KeepTime for SimClock {
    fn get_timestamp_in_ms(&self) -> Timestamp {
        self.now()
    }
}
