//! Counting global allocator: per-thread live bytes and peak, so that a decoder call can be judged
//! against "never allocates more than a small multiple of the input length".

use std::alloc::{GlobalAlloc, Layout, System};
use std::cell::Cell;

pub struct Counting;

thread_local! {
    static LIVE: Cell<isize> = const { Cell::new(0) };
    static PEAK: Cell<isize> = const { Cell::new(0) };
}

unsafe impl GlobalAlloc for Counting {
    unsafe fn alloc(&self, layout: Layout) -> *mut u8 {
        let p = System.alloc(layout);
        if !p.is_null() {
            let _ = LIVE.try_with(|l| {
                let v = l.get() + layout.size() as isize;
                l.set(v);
                let _ = PEAK.try_with(|pk| {
                    if v > pk.get() {
                        pk.set(v);
                    }
                });
            });
        }
        p
    }
    unsafe fn dealloc(&self, ptr: *mut u8, layout: Layout) {
        System.dealloc(ptr, layout);
        let _ = LIVE.try_with(|l| l.set(l.get() - layout.size() as isize));
    }
    unsafe fn realloc(&self, ptr: *mut u8, layout: Layout, new_size: usize) -> *mut u8 {
        let p = System.realloc(ptr, layout, new_size);
        if !p.is_null() {
            let _ = LIVE.try_with(|l| {
                let v = l.get() + new_size as isize - layout.size() as isize;
                l.set(v);
                let _ = PEAK.try_with(|pk| {
                    if v > pk.get() {
                        pk.set(v);
                    }
                });
            });
        }
        p
    }
}

#[global_allocator]
static GLOBAL: Counting = Counting;

/// start a measurement window: peak := live
pub fn window_start() -> isize {
    let live = LIVE.with(|l| l.get());
    PEAK.with(|p| p.set(live));
    live
}

/// bytes allocated above the level at window start, at the worst moment since
pub fn window_peak(start_live: isize) -> usize {
    let pk = PEAK.with(|p| p.get());
    (pk - start_live).max(0) as usize
}
