//! Scenario trait, worker / supervisor processes, minimisation, replay, evidence, known findings.

use std::collections::{BTreeMap, BTreeSet};
use std::io::{BufRead, BufReader, Write};
use std::process::{Child, Command, Stdio};
use std::sync::mpsc;
use std::time::{Duration, Instant};

use serde::{Deserialize, Serialize};
use serde_json::{json, Value};

use crate::rng::run_seed;
use crate::util::{guarded, reset_determinism, PanicReport};

pub const DEFAULT_SEED: u64 = 20260925;

#[derive(Clone, Copy, Debug, PartialEq, Eq)]
pub enum Tier {
    Quick,
    Thorough,
}

impl Tier {
    pub fn name(&self) -> &'static str {
        match self {
            Tier::Quick => "quick",
            Tier::Thorough => "thorough",
        }
    }
    pub fn parse(s: &str) -> Tier {
        if s == "thorough" {
            Tier::Thorough
        } else {
            Tier::Quick
        }
    }
}

#[derive(Clone, Debug, Serialize, Deserialize, PartialEq, Eq)]
pub struct Violation {
    pub signature: String,
    pub detail: String,
}

#[derive(Clone, Debug, Default, Serialize, Deserialize)]
pub struct RunResult {
    pub violations: Vec<Violation>,
    /// digest of the distinct non-trivial case class this run represents (None = trivial run)
    pub nontrivial: Vec<u64>,
    pub faults: BTreeMap<String, u64>,
    pub probes: BTreeMap<String, u64>,
    pub sim_time_ms: u64,
    pub state_hash: u64,
    pub schedule_hash: u64,
    /// digest of the whole observable event log of the run (determinism check)
    pub trace_hash: u64,
    pub discarded: bool,
    pub steps: u64,
}

impl RunResult {
    pub fn violate(&mut self, signature: impl Into<String>, detail: impl Into<String>) {
        let signature = signature.into();
        if !self.violations.iter().any(|v| v.signature == signature) {
            self.violations.push(Violation {
                signature,
                detail: detail.into(),
            });
        }
    }
    pub fn fault(&mut self, k: &str, n: u64) {
        *self.faults.entry(k.to_string()).or_insert(0) += n;
    }
    pub fn probe(&mut self, k: &str) {
        *self.probes.entry(k.to_string()).or_insert(0) += 1;
    }
    pub fn probe_n(&mut self, k: &str, n: u64) {
        *self.probes.entry(k.to_string()).or_insert(0) += n;
    }
}

pub struct Budget {
    pub max_runs: u64,
    pub wall_s: u64,
}

pub struct Meta {
    pub level: &'static str,
    pub rule: &'static str,
    pub real: &'static [&'static str],
    pub stubs: &'static [&'static str],
    pub assumptions: &'static [&'static str],
}

pub trait Scenario: Sync {
    fn id(&self) -> &'static str;
    fn meta(&self) -> Meta;
    fn budget(&self, tier: Tier) -> Budget;
    /// number of leading run indices that enumerate a small space completely (0 = none)
    fn exhaustive_prefix(&self, _tier: Tier) -> u64 {
        0
    }
    fn generate(&self, seed: u64, index: u64, tier: Tier) -> Value;
    /// pure function of the plan
    fn execute(&self, plan: &Value) -> RunResult;
    /// candidate simpler plans, most aggressive first
    fn shrink(&self, _plan: &Value) -> Vec<Value> {
        vec![]
    }
    /// panics whose site matches are attributed to this property under this clause
    fn panic_signature(&self, p: &PanicReport) -> String {
        if p.step_budget {
            format!("{}|does-not-return|{}", self.id(), p.site())
        } else {
            format!("{}|panic|{}", self.id(), p.site())
        }
    }
}

/// execute with all determinism resets and the panic guard
pub fn run_plan(sc: &dyn Scenario, plan: &Value) -> RunResult {
    let seed = plan.get("seed").and_then(|v| v.as_u64()).unwrap_or(0);
    reset_determinism(seed);
    match guarded(|| sc.execute(plan)) {
        Ok(r) => r,
        Err(p) => {
            let mut r = RunResult::default();
            r.violate(sc.panic_signature(&p), format!("{} at {}:{}", p.msg, p.file, p.line));
            r.trace_hash = crate::rng::fnv(&p.site());
            r
        }
    }
}

// ---------------------------------------------------------------------------------------------
// known findings

#[derive(Clone, Debug, Serialize, Deserialize)]
pub struct KnownFinding {
    pub property: String,
    pub signature: String,
    pub status: String, // "known" | "fixed"
    #[serde(default)]
    pub commit: Option<String>,
    pub what: String,
}

pub fn load_known(verif_root: &str) -> Vec<KnownFinding> {
    let p = format!("{}/known_findings.jsonl", verif_root);
    let mut v = vec![];
    if let Ok(s) = std::fs::read_to_string(&p) {
        for l in s.lines() {
            let l = l.trim();
            if l.is_empty() || l.starts_with('#') {
                continue;
            }
            match serde_json::from_str::<KnownFinding>(l) {
                Ok(k) => v.push(k),
                Err(e) => {
                    eprintln!("harness error: bad known_findings line: {} ({})", l, e);
                    std::process::exit(2);
                }
            }
        }
    }
    v
}

// ---------------------------------------------------------------------------------------------
// worker

#[derive(Serialize, Deserialize, Default)]
pub struct WorkerSummary {
    pub evaluations: u64,
    pub discarded: u64,
    pub nontrivial: Vec<u64>,
    pub faults: BTreeMap<String, u64>,
    pub probes: BTreeMap<String, u64>,
    pub sim_time_ms: u64,
    pub states: Vec<u64>,
    pub schedules: Vec<u64>,
    pub steps: u64,
    pub samples: Vec<Value>,
    pub exhaustive_done: u64,
}

pub fn worker_main(
    sc: &dyn Scenario,
    tier: Tier,
    seed: u64,
    from: u64,
    stride: u64,
    max_index: u64,
    deadline: Instant,
    trace_hashes: bool,
) {
    let out = std::io::stdout();
    let mut sum = WorkerSummary::default();
    let mut nontrivial: BTreeSet<u64> = BTreeSet::new();
    let mut states: BTreeSet<u64> = BTreeSet::new();
    let mut schedules: BTreeSet<u64> = BTreeSet::new();
    let exhaustive = sc.exhaustive_prefix(tier);
    let mut i = from;
    while i < max_index {
        // the exhaustive prefix is always completed; beyond it the deadline applies
        if i >= exhaustive && Instant::now() >= deadline {
            break;
        }
        {
            let mut o = out.lock();
            let _ = writeln!(o, "S {}", i);
            let _ = o.flush();
        }
        let plan = sc.generate(seed, i, tier);
        let r = run_plan(sc, &plan);
        sum.evaluations += 1;
        if i < exhaustive {
            sum.exhaustive_done += 1;
        }
        if r.discarded {
            sum.discarded += 1;
        }
        for k in &r.nontrivial {
            nontrivial.insert(*k);
        }
        for (k, v) in &r.faults {
            *sum.faults.entry(k.clone()).or_insert(0) += v;
        }
        for (k, v) in &r.probes {
            *sum.probes.entry(k.clone()).or_insert(0) += v;
        }
        sum.sim_time_ms += r.sim_time_ms;
        sum.steps += r.steps;
        if r.state_hash != 0 && states.len() < 2_000_000 {
            states.insert(r.state_hash);
        }
        if r.schedule_hash != 0 && schedules.len() < 2_000_000 {
            schedules.insert(r.schedule_hash);
        }
        if sum.samples.len() < 2 && !r.nontrivial.is_empty() {
            sum.samples.push(plan.clone());
        }
        if trace_hashes {
            let mut o = out.lock();
            let _ = writeln!(o, "T {} {}", i, r.trace_hash);
        }
        for v in &r.violations {
            let line = json!({"index": i, "signature": v.signature, "detail": v.detail, "plan": plan, "trace_hash": r.trace_hash});
            let mut o = out.lock();
            let _ = writeln!(o, "V {}", line);
            let _ = o.flush();
        }
        i += stride;
    }
    sum.nontrivial = nontrivial.into_iter().collect();
    sum.states = states.into_iter().collect();
    sum.schedules = schedules.into_iter().collect();
    let mut o = out.lock();
    let _ = writeln!(o, "R {}", serde_json::to_string(&sum).unwrap());
    let _ = o.flush();
}

// ---------------------------------------------------------------------------------------------
// supervisor

enum WMsg {
    Line(usize, String),
    Eof(usize),
}

struct WorkerProc {
    child: Child,
    current: Option<u64>,
    last_progress: Instant,
    done: bool,
    from: u64,
}

#[derive(Clone, Debug)]
pub struct FoundViolation {
    pub index: u64,
    pub signature: String,
    pub detail: String,
    pub plan: Value,
    pub trace_hash: u64,
}

pub struct SupervisorOutput {
    pub summary: WorkerSummary,
    pub violations: Vec<FoundViolation>,
    pub traces: BTreeMap<u64, u64>,
    pub wall_s: f64,
    pub stalls: Vec<u64>,
}

fn spawn_worker(
    exe: &str,
    id: &str,
    tier: Tier,
    seed: u64,
    from: u64,
    stride: u64,
    max_index: u64,
    wall_s: u64,
    trace: bool,
) -> Child {
    let mut c = Command::new(exe);
    c.arg("worker")
        .arg(id)
        .arg("--tier")
        .arg(tier.name())
        .arg("--seed")
        .arg(seed.to_string())
        .arg("--from")
        .arg(from.to_string())
        .arg("--stride")
        .arg(stride.to_string())
        .arg("--max-index")
        .arg(max_index.to_string())
        .arg("--wall-s")
        .arg(wall_s.to_string());
    if trace {
        c.arg("--trace-hashes");
    }
    c.stdin(Stdio::null())
        .stdout(Stdio::piped())
        .stderr(Stdio::null());
    c.spawn().expect("spawn worker")
}

pub fn supervise(
    sc: &dyn Scenario,
    tier: Tier,
    seed: u64,
    workers: usize,
    max_runs: u64,
    wall_s: u64,
    trace: bool,
    stall_timeout_s: u64,
) -> SupervisorOutput {
    let exe = std::env::current_exe().unwrap().to_string_lossy().to_string();
    let start = Instant::now();
    let (tx, rx) = mpsc::channel::<WMsg>();
    let mut procs: Vec<WorkerProc> = vec![];
    let stride = workers as u64;
    let attach = |w: usize, child: &mut Child, tx: mpsc::Sender<WMsg>| {
        let stdout = child.stdout.take().unwrap();
        std::thread::spawn(move || {
            let rd = BufReader::new(stdout);
            for l in rd.lines() {
                match l {
                    Ok(l) => {
                        if tx.send(WMsg::Line(w, l)).is_err() {
                            return;
                        }
                    }
                    Err(_) => break,
                }
            }
            let _ = tx.send(WMsg::Eof(w));
        });
    };
    for w in 0..workers {
        let mut child = spawn_worker(&exe, sc.id(), tier, seed, w as u64, stride, max_runs, wall_s, trace);
        attach(w, &mut child, tx.clone());
        procs.push(WorkerProc {
            child,
            current: None,
            last_progress: Instant::now(),
            done: false,
            from: w as u64,
        });
    }
    let mut total = WorkerSummary::default();
    let mut nontrivial: BTreeSet<u64> = BTreeSet::new();
    let mut states: BTreeSet<u64> = BTreeSet::new();
    let mut schedules: BTreeSet<u64> = BTreeSet::new();
    let mut violations: Vec<FoundViolation> = vec![];
    let mut traces = BTreeMap::new();
    let mut stalls = vec![];
    let hard_deadline = start + Duration::from_secs(wall_s * 3 + 120);
    loop {
        if procs.iter().all(|p| p.done) {
            break;
        }
        match rx.recv_timeout(Duration::from_millis(500)) {
            Ok(WMsg::Line(w, l)) => {
                procs[w].last_progress = Instant::now();
                if let Some(rest) = l.strip_prefix("S ") {
                    procs[w].current = rest.trim().parse().ok();
                } else if let Some(rest) = l.strip_prefix("T ") {
                    let mut it = rest.split_whitespace();
                    if let (Some(a), Some(b)) = (it.next(), it.next()) {
                        if let (Ok(a), Ok(b)) = (a.parse::<u64>(), b.parse::<u64>()) {
                            traces.insert(a, b);
                        }
                    }
                } else if let Some(rest) = l.strip_prefix("V ") {
                    if let Ok(v) = serde_json::from_str::<Value>(rest) {
                        violations.push(FoundViolation {
                            index: v["index"].as_u64().unwrap_or(0),
                            signature: v["signature"].as_str().unwrap_or("").to_string(),
                            detail: v["detail"].as_str().unwrap_or("").to_string(),
                            plan: v["plan"].clone(),
                            trace_hash: v["trace_hash"].as_u64().unwrap_or(0),
                        });
                    }
                } else if let Some(rest) = l.strip_prefix("R ") {
                    if let Ok(s) = serde_json::from_str::<WorkerSummary>(rest) {
                        total.evaluations += s.evaluations;
                        total.discarded += s.discarded;
                        total.sim_time_ms += s.sim_time_ms;
                        total.steps += s.steps;
                        total.exhaustive_done += s.exhaustive_done;
                        for k in s.nontrivial {
                            nontrivial.insert(k);
                        }
                        for k in s.states {
                            states.insert(k);
                        }
                        for k in s.schedules {
                            schedules.insert(k);
                        }
                        for (k, v) in s.faults {
                            *total.faults.entry(k).or_insert(0) += v;
                        }
                        for (k, v) in s.probes {
                            *total.probes.entry(k).or_insert(0) += v;
                        }
                        for p in s.samples {
                            if total.samples.len() < 3 {
                                total.samples.push(p);
                            }
                        }
                    }
                }
            }
            Ok(WMsg::Eof(w)) => {
                let _ = procs[w].child.wait();
                procs[w].done = true;
            }
            Err(_) => {}
        }
        // stall detection: a worker silent for too long is hung inside one run
        for w in 0..procs.len() {
            if procs[w].done {
                continue;
            }
            let silent = procs[w].last_progress.elapsed().as_secs();
            if silent > stall_timeout_s || Instant::now() > hard_deadline {
                let _ = procs[w].child.kill();
                let _ = procs[w].child.wait();
                procs[w].done = true;
                if let Some(i) = procs[w].current {
                    stalls.push(i);
                    // the evaluations of this worker are lost (no summary); count the stalled one
                    total.evaluations += 1;
                    // restart after the stalled index if time remains
                    let elapsed = start.elapsed().as_secs();
                    if elapsed + 5 < wall_s {
                        let mut child = spawn_worker(
                            &exe,
                            sc.id(),
                            tier,
                            seed,
                            i + stride,
                            stride,
                            max_runs,
                            wall_s - elapsed,
                            trace,
                        );
                        attach(w, &mut child, tx.clone());
                        procs[w] = WorkerProc {
                            child,
                            current: None,
                            last_progress: Instant::now(),
                            done: false,
                            from: procs[w].from,
                        };
                    }
                }
            }
        }
    }
    total.nontrivial = nontrivial.into_iter().collect();
    total.states = states.into_iter().collect();
    total.schedules = schedules.into_iter().collect();
    SupervisorOutput {
        summary: total,
        violations,
        traces,
        wall_s: start.elapsed().as_secs_f64(),
        stalls,
    }
}

// ---------------------------------------------------------------------------------------------
// minimisation + replay files

pub fn minimise(sc: &dyn Scenario, plan: &Value, signature: &str, time_cap: Duration) -> (Value, u64) {
    let start = Instant::now();
    let mut cur = plan.clone();
    let mut rounds = 0u64;
    'outer: loop {
        if start.elapsed() > time_cap || rounds > 400 {
            break;
        }
        for cand in sc.shrink(&cur) {
            if start.elapsed() > time_cap {
                break 'outer;
            }
            let r = run_plan(sc, &cand);
            if r.violations.iter().any(|v| v.signature == signature) {
                cur = cand;
                rounds += 1;
                continue 'outer;
            }
        }
        break;
    }
    (cur, rounds)
}

#[derive(Serialize, Deserialize)]
pub struct ReplayFile {
    pub property: String,
    pub signature: String,
    pub detail: String,
    pub seed: u64,
    pub index: u64,
    pub plan: Value,
    pub trace_hash: u64,
    pub minimise_rounds: u64,
    pub original_plan_size: usize,
    pub plan_size: usize,
    pub repo_head: String,
}

pub fn repo_head() -> String {
    Command::new("git")
        .args(["-C", "/repo", "rev-parse", "--short", "HEAD"])
        .output()
        .ok()
        .map(|o| String::from_utf8_lossy(&o.stdout).trim().to_string())
        .unwrap_or_default()
}

fn sig_tag(sig: &str) -> String {
    format!("{:08x}", crate::rng::fnv(sig) as u32)
}

/// runs `simctl replay <file>` in a fresh process; returns (exit code, stdout)
pub fn replay_in_fresh_process(path: &str, timeout: Duration) -> (i32, String) {
    let exe = std::env::current_exe().unwrap();
    let mut child = Command::new(exe)
        .arg("replay")
        .arg(path)
        .stdin(Stdio::null())
        .stdout(Stdio::piped())
        .stderr(Stdio::null())
        .spawn()
        .expect("spawn replay");
    let start = Instant::now();
    loop {
        match child.try_wait() {
            Ok(Some(st)) => {
                let mut s = String::new();
                if let Some(mut o) = child.stdout.take() {
                    use std::io::Read;
                    let _ = o.read_to_string(&mut s);
                }
                return (st.code().unwrap_or(2), s);
            }
            Ok(None) => {
                if start.elapsed() > timeout {
                    let _ = child.kill();
                    let _ = child.wait();
                    return (3, "timeout".into());
                }
                std::thread::sleep(Duration::from_millis(20));
            }
            Err(_) => return (2, String::new()),
        }
    }
}

/// `simctl replay <file>`: exit 1 + VIOLATION line iff the recorded signature reproduces
pub fn replay_main(sc: &dyn Scenario, rf: &ReplayFile, path: &str) -> i32 {
    let r = run_plan(sc, &rf.plan);
    if let Some(v) = r.violations.iter().find(|v| v.signature == rf.signature) {
        if rf.trace_hash != 0 && r.trace_hash != rf.trace_hash {
            println!(
                "HARNESS-ERROR nondeterministic replay: trace hash {} != recorded {}",
                r.trace_hash, rf.trace_hash
            );
            return 2;
        }
        println!("VIOLATION property={} replay={}", rf.property, path);
        println!("  signature: {}", v.signature);
        println!("  detail: {}", v.detail);
        1
    } else {
        println!(
            "replay did not reproduce signature {} (found: {:?})",
            rf.signature,
            r.violations.iter().map(|v| v.signature.clone()).collect::<Vec<_>>()
        );
        0
    }
}

pub struct CheckOptions {
    pub verif_root: String,
    pub workers: usize,
    pub seed: u64,
    pub tier: Tier,
    pub max_runs_override: Option<u64>,
    pub wall_override: Option<u64>,
}

/// the whole check: search, triage against known findings, minimise, confirm, evidence, exit code
pub fn check_main(sc: &dyn Scenario, opt: &CheckOptions) -> i32 {
    let b = sc.budget(opt.tier);
    let max_runs = opt.max_runs_override.unwrap_or(b.max_runs);
    let wall_s = opt.wall_override.unwrap_or(b.wall_s);
    let known = load_known(&opt.verif_root);
    let out = supervise(sc, opt.tier, opt.seed, opt.workers, max_runs, wall_s, false, 90);

    // group violations by signature, lowest index first
    let mut by_sig: BTreeMap<String, FoundViolation> = BTreeMap::new();
    for v in &out.violations {
        let e = by_sig.entry(v.signature.clone());
        match e {
            std::collections::btree_map::Entry::Vacant(x) => {
                x.insert(v.clone());
            }
            std::collections::btree_map::Entry::Occupied(mut x) => {
                if v.index < x.get().index {
                    x.insert(v.clone());
                }
            }
        }
    }
    // stalls (worker killed by the watchdog): regenerate the plan and report as does-not-return
    for i in &out.stalls {
        let plan = sc.generate(opt.seed, *i, opt.tier);
        let sig = format!("{}|stall|watchdog", sc.id());
        by_sig.entry(sig.clone()).or_insert(FoundViolation {
            index: *i,
            signature: sig,
            detail: "run exceeded the wall-clock watchdog (no step-budget probe on the looping path)".into(),
            plan,
            trace_hash: 0,
        });
    }

    let mut exit = 0;
    let mut known_seen = vec![];
    let mut new_violations = 0;
    // VERIF_OUT_DIR redirects replays and evidence (used when a check is pointed at a deliberately
    // broken tree, so that the committed evidence keeps describing the real one)
    let out_root = std::env::var("VERIF_OUT_DIR").unwrap_or_else(|_| opt.verif_root.clone());
    let replay_dir = format!("{}/replays", out_root);
    let _ = std::fs::create_dir_all(&replay_dir);
    let mut sig_counts: BTreeMap<String, u64> = BTreeMap::new();
    for v in &out.violations {
        *sig_counts.entry(v.signature.clone()).or_insert(0) += 1;
    }
    for (sig, v) in &by_sig {
        let is_known = known
            .iter()
            .find(|k| k.property == sc.id() && k.signature == *sig && k.status == "known");
        if let Some(k) = is_known {
            println!("KNOWN-FINDING: property={} {} [{}]", sc.id(), k.what, sig);
            known_seen.push(sig.clone());
            continue;
        }
        // new: minimise, write replay, confirm in fresh process
        let is_stall = sig.ends_with("|stall|watchdog");
        let (plan, rounds) = if is_stall {
            (v.plan.clone(), 0)
        } else {
            minimise(sc, &v.plan, sig, Duration::from_secs(60))
        };
        let r = if is_stall { RunResult::default() } else { run_plan(sc, &plan) };
        let rf = ReplayFile {
            property: sc.id().to_string(),
            signature: sig.clone(),
            detail: r
                .violations
                .iter()
                .find(|x| x.signature == *sig)
                .map(|x| x.detail.clone())
                .unwrap_or(v.detail.clone()),
            seed: opt.seed,
            index: v.index,
            original_plan_size: v.plan.to_string().len(),
            plan_size: plan.to_string().len(),
            plan,
            trace_hash: r.trace_hash,
            minimise_rounds: rounds,
            repo_head: repo_head(),
        };
        let path = format!("{}/{}-{}-{}.json", replay_dir, sc.id(), opt.seed, sig_tag(sig));
        std::fs::write(&path, serde_json::to_string_pretty(&rf).unwrap()).expect("write replay");
        if is_stall {
            println!("VIOLATION property={} replay={}", sc.id(), path);
            println!("  signature: {}", sig);
            new_violations += 1;
            exit = 1;
            continue;
        }
        let (code, _) = replay_in_fresh_process(&path, Duration::from_secs(120));
        if code == 1 {
            println!("VIOLATION property={} replay={}", sc.id(), path);
            println!("  signature: {}", sig);
            println!("  detail: {}", rf.detail);
            new_violations += 1;
            exit = 1;
        } else {
            println!(
                "HARNESS-ERROR: replay of {} did not reproduce in a fresh process (code {})",
                path, code
            );
            return 2;
        }
    }

    // evidence
    let meta = sc.meta();
    let s = &out.summary;
    let exhaustive_n = sc.exhaustive_prefix(opt.tier);
    let hours = out.wall_s / 3600.0;
    let zero_probes: Vec<String> = s
        .probes
        .iter()
        .filter(|(_, v)| **v == 0)
        .map(|(k, _)| k.clone())
        .collect();
    let ev = json!({
        "property_id": sc.id(),
        "tier": opt.tier.name(),
        "seed": opt.seed,
        "level": meta.level,
        "wall_s": out.wall_s,
        "violations": new_violations,
        "assumptions": meta.assumptions,
        "coverage": {
            "evaluations": s.evaluations,
            "distinct_nontrivial": s.nontrivial.len(),
            "rule": meta.rule,
            "samples": s.samples,
            // true only when the run was nothing but the complete enumeration of the declared finite space;
            // an enumerated prefix followed by sampling is described by small_space instead
            "exhaustive": exhaustive_n > 0 && s.exhaustive_done >= exhaustive_n && s.evaluations <= exhaustive_n,
            "small_space": {"size": exhaustive_n, "completed": s.exhaustive_done, "enumerated_completely": exhaustive_n > 0 && s.exhaustive_done >= exhaustive_n},
            "discarded_runs": s.discarded,
            "runs_per_hour": if hours > 0.0 { (s.evaluations as f64 / hours) as u64 } else { 0 },
            "seeds_per_hour": if hours > 0.0 { (s.evaluations as f64 / hours) as u64 } else { 0 },
            "sim_time_ms": s.sim_time_ms,
            "steps": s.steps,
            "faults_fired": s.faults,
            "probes": s.probes,
            "probes_stuck_at_zero": zero_probes,
            "distinct_schedules": s.schedules.len(),
            "distinct_quiescent_states": s.states.len(),
            "real_components": meta.real,
            "stub_components": meta.stubs,
            "known_findings_seen": known_seen,
            "violation_signature_counts": sig_counts,
            "watchdog_stalls": out.stalls.len(),
            "workers": opt.workers,
        }
    });
    let evdir = format!("{}/evidence", out_root);
    let _ = std::fs::create_dir_all(&evdir);
    std::fs::write(
        format!("{}/{}.json", evdir, sc.id()),
        serde_json::to_string_pretty(&ev).unwrap(),
    )
    .expect("write evidence");
    println!(
        "{} {}: {} runs, {} distinct non-trivial, {} new violation signature(s), {} known finding(s) seen, {:.1}s",
        sc.id(),
        opt.tier.name(),
        s.evaluations,
        s.nontrivial.len(),
        new_violations,
        known_seen.len(),
        out.wall_s
    );
    exit
}

/// determinism self-test: the same run indices under 1 and N workers must give identical traces
pub fn selftest_main(sc: &dyn Scenario, seed: u64, runs: u64, workers: usize) -> i32 {
    let a = supervise(sc, Tier::Quick, seed, 1, runs, 600, true, 120);
    let b = supervise(sc, Tier::Quick, seed, workers, runs, 600, true, 120);
    let mut bad = 0;
    for (i, h) in &a.traces {
        match b.traces.get(i) {
            Some(h2) if h2 == h => {}
            other => {
                bad += 1;
                if bad < 10 {
                    println!("selftest {}: index {} trace {} vs {:?}", sc.id(), i, h, other);
                }
            }
        }
    }
    println!(
        "selftest {}: {} runs compared across 1 and {} workers, {} mismatches",
        sc.id(),
        a.traces.len(),
        workers,
        bad
    );
    if bad > 0 || a.traces.len() as u64 != runs.min(a.traces.len() as u64) {
        2
    } else {
        0
    }
}

pub fn derive_run_seed(seed: u64, id: &str, index: u64) -> u64 {
    run_seed(seed, id, index)
}
