//! C14 — the transaction pool stays consistent with the ledger; never loses or locks funds.
//!
//! One real node (consensus processor with timer-driven bundling). Interleavings of transaction
//! arrivals (valid, conflicting, duplicate, two-input), local bundling, peer blocks that confirm a
//! pooled transaction / spend one of its inputs / conflict with it / are invalid, and a
//! reorganisation that un-confirms transactions. A reference view of the pool is checked after
//! every operation, including an active probe that an unreserved unspent output is spendable.

use saito_core::core::consensus::block::{Block, BlockType};
use saito_core::core::consensus::transaction::{Transaction, TransactionType};
use saito_core::core::consensus_thread::ConsensusEvent;
use serde::{Deserialize, Serialize};
use serde_json::Value;

use crate::framework::*;
use crate::l2::*;
use crate::rng::{mix, Rng};
use crate::util::{block_on, Digest};
use crate::world::*;

pub struct C14;

#[derive(Clone, Debug, Serialize, Deserialize)]
pub struct Op {
    pub k: String,
    pub a: u64,
    pub b: u64,
}

#[derive(Clone, Debug, Serialize, Deserialize)]
pub struct Plan {
    pub seed: u64,
    pub depth: usize,
    pub ops: Vec<Op>,
    /// the node joined mid-chain: it is preloaded with the world's chain from block 2 or 3 on (it never saw the
    /// issuance block, so it has not loaded the whole ledger). Only outputs created in blocks it holds are
    /// offered as inputs; what it admits to its pool must still be valid against the ledger it has
    #[serde(default)]
    pub joined_mid_chain: bool,
    /// "" = the preloaded-world family; "staking" = a self-started producer with social staking on (its
    /// staking transaction goes into every block THROUGH the pool, so it holds reservations like any other)
    #[serde(default)]
    pub family: String,
    #[serde(default)]
    pub stake: u64,
}

pub const STAKING_KINDS: &[&str] = &["tx", "tx", "tx", "tx-conflict", "tx-dup", "stage", "bundle", "bundle", "bundle", "issuance-in-pool", "producer-tx"];

pub const KINDS: &[&str] = &[
    "tx", "tx", "tx", "tx-2in", "tx-conflict", "tx-conflict-2nd-input", "tx-dup", "stage", "bundle", "bundle", "peer-confirm", "peer-partial", "peer-conflict", "peer-side-conflict", "peer-invalid", "peer-plain", "reorg", "own-invalid", "tx-spent-input",
];

fn gen(seed: u64, tier: Tier) -> Plan {
    let mut rng = Rng::new(seed);
    let n = rng.range(4, if tier == Tier::Quick { 40 } else { 120 });
    let mut p = Plan {
        seed,
        depth: rng.range(2, 5) as usize,
        ops: (0..n).map(|_| Op { k: rng.pick(KINDS).to_string(), a: rng.below(32), b: rng.below(32) }).collect(),
        joined_mid_chain: rng.chance(1, 5),
        family: String::new(),
        stake: 0,
    };
    // a separate stream decides the family, so that the plans of the first family stay what they were
    let mut fr = Rng::new(mix(seed, 1414));
    if fr.chance(1, 6) {
        p.family = "staking".to_string();
        p.stake = [50_000u64, 2_000_000, 40_000_000][fr.below(3) as usize];
        let n = fr.range(4, if tier == Tier::Quick { 24 } else { 60 });
        p.ops = (0..n).map(|_| Op { k: fr.pick(STAKING_KINDS).to_string(), a: fr.below(32), b: fr.below(32) }).collect();
    }
    p
}

fn in_keys(t: &Transaction) -> Vec<UtxoKey> {
    t.from.iter().filter(|s| s.amount > 0).map(|s| SlipRef::from_slip(s).key()).collect()
}

impl Scenario for C14 {
    fn id(&self) -> &'static str {
        "C14"
    }
    fn meta(&self) -> Meta {
        Meta {
            level: "exploration",
            rule: "run = one real node (consensus processor, timer-driven bundling, real mempool) preloaded with 2-5 blocks (one run in five: from block 2 or 3 on only - a node that joined mid-chain and has not loaded the whole ledger; inputs are then drawn from the blocks it holds); 4..40/120 operations from {valid payment (half of them routed to the node with a fee, so that they carry routing work), two-input payment, conflicting spend of a pooled input, two-input transaction whose second input conflicts with a pooled one, duplicate, transaction whose input a held block already spent, staging tick (moves received transactions into the pool without a block), bundling tick, peer block confirming a pooled transaction, peer block spending one of the two inputs of a pooled transaction, peer block conflicting with a pooled transaction, sibling of the tip (never the longest chain) spending a reserved input, invalid peer block, plain peer block, two-block peer fork that reorganises away the last block, a block under the node's own key carrying a good payment and a transaction that re-spends an already spent output (refused; the node hands the transactions of a refused own block back to its pool)}. After every operation: no two pooled transactions share a value-carrying input; every pooled transaction validates against the current ledger; reserved inputs (utxo_map) are exactly the pooled transactions' value-carrying inputs; cached routing work equals the sum over pooled transactions; a bundling tick either produced a block that the node adopted and whose transactions left the pool, or left the pool unchanged; and a fresh valid payment from an unspent output that no pooled transaction spends enters the pool (tried on a scratch basis: the probe transaction is removed again). One run in six is the staking family instead: a producer that starts its own chain from an issuance file with social staking on (stake 5e4/2e6/4e7, period 2-4; real MiningThread; the staking transaction enters every block through the pool) under 4..24/60 operations from {routed payment, payment by the producer's own key, conflicting spend, duplicate, staging tick, bundling tick, Issuance-typed transaction offered to the pool (makes the next bundled block one the node refuses)}; the same oracle after every operation, the probe also on the producer's own outputs; plus: no staking transaction is left in the pool at a quiescent point, and a block that bundle_block returned is refused only when the pool held the Issuance-typed entry or a payment under the producer's own key. distinct_nontrivial = distinct op-sequence digests with >= 1 pool/ledger conflict event (staking family: or >= 1 refused staked block).",
            real: &["Mempool::add_transaction_if_validates/add_transaction/bundle_block/can_bundle_block/delete_transactions", "ConsensusThread::process_event/process_timer_event/bundle_block", "Blockchain::add_blocks_from_mempool/remove_block_transactions/add_block_failure", "Block::create", "staking family: Blockchain genesis from issuance file, Wallet stake selection, MiningThread"],
            stubs: &["no network (blocks and transactions are injected at the consensus processor's channel)", "SimClock", "universe builder for peer blocks"],
            assumptions: &["event-granularity scheduling", "the active probe removes its transaction (and reservation) again"],
        }
    }
    fn budget(&self, tier: Tier) -> Budget {
        match tier {
            Tier::Quick => Budget { max_runs: 20_000, wall_s: 45 },
            Tier::Thorough => Budget { max_runs: 1_000_000, wall_s: 480 },
        }
    }
    fn generate(&self, seed: u64, index: u64, tier: Tier) -> Value {
        serde_json::to_value(gen(derive_run_seed(seed, "C14", index), tier)).unwrap()
    }
    fn execute(&self, plan: &Value) -> RunResult {
        let plan: Plan = serde_json::from_value(plan.clone()).expect("plan");
        if plan.family == "staking" {
            return staking_family(&plan);
        }
        let mut r = RunResult::default();
        let mut w = World::new(plan.seed, Params::default());
        let mut rng = Rng::new(mix(plan.seed, 14));
        let built = crate::util::guarded(|| -> Result<Vec<usize>, String> {
            let mut cur = 0usize;
            let mut v = vec![0usize];
            for _ in 0..plan.depth {
                cur = w.honest_child(cur, &mut rng, 1, (w.recs[cur].id + 1) % 2 == 0, 2300, "c")?;
                v.push(cur);
            }
            Ok(v)
        });
        let chain = match built {
            Ok(Ok(v)) => v,
            _ => {
                r.discarded = true;
                return r;
            }
        };
        let start = w.recs[*chain.last().unwrap()].ts + 6_000;
        let mut sim = Sim::new(mix(plan.seed, 141), start);
        let mut opts = NodeOpts::default();
        opts.produce_blocks_by_timer = true;
        let nkey = w.keys[0].clone(); // the node is the usual block creator of this world
        let n = sim.add_node(&nkey, &w.cfg.clone(), &opts);
        let skip = if plan.joined_mid_chain && chain.len() >= 3 { 1 + (plan.seed % 2) as usize } else { 0 };
        let held_from: u64 = w.recs[chain[skip]].id;
        if skip > 0 {
            r.fault("node_joined_mid_chain", 1);
        }
        let pre: Vec<Vec<u8>> = chain[skip..].iter().map(|i| w.recs[*i].bytes.clone()).collect();
        if !sim.preload(n, &pre) {
            r.discarded = true;
            return r;
        }
        sim.init_node(n, false);
        let mut trace = Digest::new();
        let mut conflicts = 0u64;
        let mut tagc = 0u64;
        let mut last_sent: Option<Transaction> = None;

        // learn blocks the node produced itself
        let sync_world = |sim: &Sim, w: &mut World| {
            let tip = sim.nodes[0].tip();
            if w.by_hash.contains_key(&tip.1) {
                return;
            }
            let bc = block_on(sim.nodes[0].blockchain_lock.read());
            let mut todo = vec![];
            let mut cur = tip.1;
            while !w.by_hash.contains_key(&cur) {
                match bc.get_block(&cur) {
                    Some(b) => {
                        todo.push(b.serialize_for_net(BlockType::Full));
                        cur = b.previous_block_hash;
                    }
                    None => break,
                }
            }
            drop(bc);
            todo.reverse();
            for bytes in todo {
                if let Ok(mut b) = Block::deserialize_from_net(&bytes) {
                    if b.generate().is_ok() {
                        w.register(b, true, "self-produced");
                    }
                }
            }
        };
        let run_quiet = |sim: &mut Sim| -> bool { sim.settle_without_fetches(20_000) };

        for (oi, op) in plan.ops.iter().enumerate() {
            trace.str(&op.k).u64(op.a).u64(op.b);
            sync_world(&sim, &mut w);
            let tip = sim.nodes[n].tip();
            let tip_idx = match w.by_hash.get(&tip.1) {
                Some(i) => *i,
                None => break,
            };
            let mut ledger = w.ledger_at(tip_idx);
            ledger.utxo.retain(|_, s| s.block_id >= held_from);
            let (pool_before, reserved_before): (Vec<Transaction>, Vec<UtxoKey>) = {
                let mp = block_on(sim.nodes[n].mempool_lock.read());
                let mut v: Vec<Transaction> = mp.transactions.values().cloned().collect();
                v.sort_by(|a, b| a.signature.cmp(&b.signature));
                (v, mp.utxo_map.keys().cloned().collect())
            };
            let staged: Vec<Transaction> = sim.nodes[n].consensus.txs_for_mempool.clone();
            let busy: Vec<UtxoKey> = pool_before.iter().chain(staged.iter()).flat_map(in_keys).collect();
            let free_of = |u: usize| -> Vec<SlipRef> { ledger.unspent_of(&w.keys[u].pk).into_iter().filter(|s| !busy.contains(&s.key())).collect() };
            let mut send_tx = |sim: &mut Sim, t: Transaction| {
                sim.nodes[n].q_consensus.push_back(ConsensusEvent::NewTransaction { transaction: t });
            };
            let mut bundle_expected = false;
            match op.k.as_str() {
                "tx" | "tx-2in" => {
                    let u = 1 + (op.a as usize % 3);
                    let free = free_of(u);
                    let k = if op.k == "tx-2in" { 2 } else { 1 };
                    if free.len() >= k {
                        let ins: Vec<SlipRef> = free.iter().cycle().skip(op.b as usize % free.len()).take(k).cloned().collect();
                        if k == 1 || ins[0].key() != ins[1].key() {
                            let total: u64 = ins.iter().map(|s| s.amount).sum();
                            let fee = (op.b * 311) % (total / 4 + 1);
                            tagc += 1;
                            let mut t = make_tx(&w.keys[u].clone(), &ins, &[(w.keys[1 + ((u + 1) % 3)].pk, (total - fee) / 2), (w.keys[u].pk, total - fee - (total - fee) / 2)], sim.now() + tagc, &tagc.to_le_bytes());
                            if op.a % 2 == 0 {
                                // routed to this node: carries routing work for it (the cached sum matters)
                                let uk = w.keys[u].clone();
                                t.add_hop(&uk.sk, &uk.pk, &nkey.pk);
                                r.probe("routed_fee_tx");
                            }
                            t.generate(&nkey.pk, 0, 0);
                            last_sent = Some(t.clone());
                            send_tx(&mut sim, t);
                        }
                    }
                }
                "tx-conflict" => {
                    // spends an input that a pooled/staged transaction already spends
                    if let Some(victim) = pool_before.iter().chain(staged.iter()).find(|t| !in_keys(t).is_empty()) {
                        let s = victim.from.iter().find(|s| s.amount > 0).unwrap();
                        let sr = SlipRef::from_slip(s);
                        if let Some(owner) = w.keys.iter().find(|k| k.pk == sr.pk).cloned() {
                            tagc += 1;
                            let mut t = make_tx(&owner, &[sr.clone()], &[(owner.pk, sr.amount)], sim.now() + tagc, &tagc.to_le_bytes());
                            t.generate(&nkey.pk, 0, 0);
                            send_tx(&mut sim, t);
                            conflicts += 1;
                            r.fault("conflicting_tx", 1);
                        }
                    }
                }
                "tx-conflict-2nd-input" => {
                    // two inputs of one owner: the first is free, the second is already spent by a pooled /
                    // staged transaction. The transaction must be refused and must leave nothing behind.
                    if let Some(victim) = pool_before.iter().chain(staged.iter()).find(|t| !in_keys(t).is_empty()) {
                        let s2 = victim.from.iter().find(|s| s.amount > 0).unwrap();
                        let sr2 = SlipRef::from_slip(s2);
                        if let Some(ui) = w.keys.iter().position(|k| k.pk == sr2.pk) {
                            let owner = w.keys[ui].clone();
                            let free: Vec<SlipRef> = if (1..=3).contains(&ui) { free_of(ui) } else { vec![] };
                            if let Some(sr1) = free.iter().find(|s| s.key() != sr2.key()).cloned() {
                                tagc += 1;
                                let mut t = make_tx(&owner, &[sr1.clone(), sr2.clone()], &[(owner.pk, sr1.amount + sr2.amount)], sim.now() + tagc, &tagc.to_le_bytes());
                                t.generate(&nkey.pk, 0, 0);
                                send_tx(&mut sim, t);
                                conflicts += 1;
                                r.fault("conflicting_tx_on_second_input", 1);
                            }
                        }
                    }
                }
                "tx-spent-input" => {
                    // a correctly signed transaction whose input a block the node holds has already spent
                    let spent: Option<SlipRef> = w
                        .path_to(tip_idx)
                        .iter()
                        .filter(|i| w.recs[**i].id >= held_from)
                        .flat_map(|i| w.recs[*i].txs.iter())
                        .filter(|t| t.ttype == TransactionType::Normal)
                        .flat_map(|t| t.inputs.iter())
                        .find(|s| s.amount > 0)
                        .cloned();
                    if let Some(sp) = spent {
                        if let Some(owner) = w.keys.iter().find(|k| k.pk == sp.pk).cloned() {
                            tagc += 1;
                            let mut t = make_tx(&owner, &[sp.clone()], &[(owner.pk, sp.amount)], sim.now() + tagc, &tagc.to_le_bytes());
                            t.generate(&nkey.pk, 0, 0);
                            send_tx(&mut sim, t);
                            r.fault("tx_with_already_spent_input", 1);
                        }
                    }
                }
                "tx-dup" => {
                    if let Some(t) = last_sent.clone() {
                        send_tx(&mut sim, t);
                        r.fault("duplicate_tx", 1);
                    }
                }
                "stage" => {
                    // < 5 s after the tip: the anti-fork delay usually prevents a block, transactions still enter the pool
                    sim.advance(1001);
                    sim.tick(n, P_CONSENSUS);
                }
                "bundle" => {
                    sim.advance(7_000);
                    bundle_expected = true;
                    sim.tick(n, P_CONSENSUS);
                }
                k if k.starts_with("peer-") || k == "reorg" || k == "own-invalid" => {
                    // a block by another creator (key index 4) on the node's tip (or replacing it)
                    let other_creator = w.params.n_users + 2;
                    let mut r2 = Rng::new(mix(plan.seed, 1000 + oi as u64));
                    let parent = if (k == "reorg" || k == "peer-side-conflict") && w.recs[tip_idx].parent != [0; 32] { *w.by_hash.get(&w.recs[tip_idx].parent).unwrap() } else { tip_idx };
                    let mut pledger = w.ledger_at(parent);
                    pledger.utxo.retain(|_, s| s.block_id >= held_from);
                    let ts = w.recs[parent].ts.max(sim.now().saturating_sub(1000)) + 2300;
                    let mut txs: Vec<Transaction> = vec![];
                    let pooled_with_value: Vec<&Transaction> = pool_before.iter().filter(|t| !in_keys(t).is_empty()).collect();
                    match k {
                        "own-invalid" => {
                            // a block under the node's own key that it will refuse: a good payment plus a
                            // transaction re-spending an output the chain has already spent. The node hands the
                            // transactions of a refused block of its own back to its pool: only the good one may return
                            let free: Vec<SlipRef> = pledger.unspent_of(&w.keys[2].pk).into_iter().filter(|s| !busy.contains(&s.key())).collect();
                            let spent_before: Option<SlipRef> = w.path_to(parent).iter().flat_map(|i| w.recs[*i].txs.iter()).filter(|t| t.ttype == TransactionType::Normal).flat_map(|t| t.inputs.iter()).find(|s| s.amount > 0 && !pledger.utxo.contains_key(&s.key())).cloned();
                            if let (Some(g), Some(sp)) = (free.first(), spent_before) {
                                if let Some(owner) = w.keys.iter().find(|k| k.pk == sp.pk).cloned() {
                                    tagc += 1;
                                    txs.push(make_tx(&w.keys[2].clone(), &[g.clone()], &[(w.keys[2].pk, g.amount)], ts + tagc, &tagc.to_le_bytes()));
                                    tagc += 1;
                                    txs.push(make_tx(&owner, &[sp.clone()], &[(owner.pk, sp.amount)], ts + tagc, &tagc.to_le_bytes()));
                                    r.fault("own_block_with_spent_input_refused", 1);
                                }
                            }
                        }
                        "peer-confirm" => {
                            if let Some(t) = pooled_with_value.first() {
                                txs.push((*t).clone());
                            }
                        }
                        "peer-partial" => {
                            if let Some(t) = pooled_with_value.iter().find(|t| in_keys(t).len() >= 2) {
                                let s = SlipRef::from_slip(t.from.iter().find(|s| s.amount > 0).unwrap());
                                if let Some(owner) = w.keys.iter().find(|k| k.pk == s.pk).cloned() {
                                    tagc += 1;
                                    txs.push(make_tx(&owner, &[s.clone()], &[(owner.pk, s.amount)], ts + tagc, &tagc.to_le_bytes()));
                                    conflicts += 1;
                                }
                            }
                        }
                        "peer-side-conflict" => {
                            // a sibling of the tip (stored, never the longest chain) that spends an input a pooled
                            // transaction has reserved: the ledger does not change, the pool must not either
                            if let Some(t) = pooled_with_value.iter().find(|t| t.from.iter().any(|s| s.amount > 0 && pledger.utxo.contains_key(&SlipRef::from_slip(s).key()))) {
                                let s = SlipRef::from_slip(t.from.iter().find(|s| s.amount > 0 && pledger.utxo.contains_key(&SlipRef::from_slip(s).key())).unwrap());
                                if let Some(owner) = w.keys.iter().find(|k| k.pk == s.pk).cloned() {
                                    tagc += 1;
                                    txs.push(make_tx(&owner, &[s.clone()], &[(owner.pk, s.amount)], ts + tagc, &tagc.to_le_bytes()));
                                    conflicts += 1;
                                    r.fault("side_block_spending_a_reserved_input", 1);
                                }
                            }
                        }
                        "peer-conflict" => {
                            if let Some(t) = pooled_with_value.first() {
                                let s = SlipRef::from_slip(t.from.iter().find(|s| s.amount > 0).unwrap());
                                if let Some(owner) = w.keys.iter().find(|k| k.pk == s.pk).cloned() {
                                    tagc += 1;
                                    txs.push(make_tx(&owner, &[s.clone()], &[(owner.pk, s.amount)], ts + tagc, &tagc.to_le_bytes()));
                                    conflicts += 1;
                                }
                            }
                        }
                        _ => {}
                    }
                    if txs.is_empty() {
                        // a payment that does not touch pooled inputs
                        let free: Vec<SlipRef> = pledger.unspent_of(&w.keys[2].pk).into_iter().filter(|s| !busy.contains(&s.key())).collect();
                        tagc += 1;
                        match free.first() {
                            Some(s) => txs.push(make_tx(&w.keys[2].clone(), &[s.clone()], &[(w.keys[2].pk, s.amount)], ts + tagc, &tagc.to_le_bytes())),
                            None => txs.push(make_tx(&w.keys[2].clone(), &[], &[(w.keys[2].pk, 0)], ts + tagc, &tagc.to_le_bytes())),
                        }
                    }
                    let _ = &mut r2;
                    let gt = (w.recs[parent].id + 1) % 2 == 0;
                    let creator = if k == "own-invalid" { 0 } else { other_creator };
                    let mk = crate::util::guarded(|| build_block(&w.builder, &w.keys, BlockSpec { parent: w.recs[parent].hash, ts, txs: txs.clone(), gt, creator }));
                    if let Ok(Ok(mut b)) = mk {
                        let mut valid = true;
                        if k == "peer-invalid" {
                            b.treasury += 1;
                            reseal(&mut b, &w.keys[other_creator].clone(), false);
                            valid = false;
                            r.fault("invalid_peer_block", 1);
                        }
                        if k == "own-invalid" {
                            valid = txs.len() < 2;
                        }
                        let i1 = w.register(b, valid, k);
                        let mut blocks = vec![w.recs[i1].bytes.clone()];
                        if k == "reorg" {
                            // second block makes the fork longer than the node's chain
                            let tag = w.next_ts_tag();
                            let t2 = make_tx(&w.keys[3].clone(), &[], &[(w.keys[3].pk, 0)], ts + 2300 + tag, &tag.to_le_bytes());
                            let gt2 = (w.recs[i1].id + 1) % 2 == 0;
                            if let Ok(Ok(b2)) = crate::util::guarded(|| build_block(&w.builder, &w.keys, BlockSpec { parent: w.recs[i1].hash, ts: ts + 2300, txs: vec![t2], gt: gt2, creator: other_creator })) {
                                let i2 = w.register(b2, true, "reorg-2");
                                blocks.push(w.recs[i2].bytes.clone());
                                r.fault("reorganisation_by_peer_fork", 1);
                                conflicts += 1;
                            }
                        }
                        sim.advance(2400);
                        sim.preload(n, &blocks);
                    }
                }
                _ => {}
            }
            let quiet = run_quiet(&mut sim);
            sim.nodes[n].out.lock().unwrap().msgs.clear();
            if let Some((_, what, p)) = sim.panics.first() {
                r.violate(format!("C14|panic|{}|{}|{}", op.k, what, p.site()), format!("op {} ({}): {} panicked: {} ({}:{})", oi, op.k, what, p.msg.chars().take(140).collect::<String>(), p.file, p.line));
                break;
            }
            if !quiet {
                r.violate("C14|stall", format!("op {} ({}): no quiescence", oi, op.k));
                break;
            }
            // ---- oracle ----
            sync_world(&sim, &mut w);
            let tip2 = sim.nodes[n].tip();
            let bc = block_on(sim.nodes[n].blockchain_lock.read());
            let mp = block_on(sim.nodes[n].mempool_lock.read());
            let mut pool: Vec<Transaction> = mp.transactions.values().cloned().collect();
            pool.sort_by(|a, b| a.signature.cmp(&b.signature));
            // (1) no shared value-carrying input
            let mut seen: Vec<UtxoKey> = vec![];
            let mut dupe = false;
            for t in &pool {
                for k in in_keys(t) {
                    if seen.contains(&k) {
                        dupe = true;
                    }
                    seen.push(k);
                }
            }
            if dupe {
                r.violate("C14|pool|two-txs-spend-same-output", format!("op {} ({}): two pooled transactions spend the same output", oi, op.k));
            }
            // (2) every pooled tx valid against the ledger
            for t in &pool {
                if !t.validate(&bc.utxoset, &bc, true) {
                    r.violate(
                        format!("C14|pool|invalid-tx-after|{}", op.k),
                        format!("op {} ({}): pooled transaction of type {:?} no longer validates against the ledger at tip {}", oi, op.k, t.transaction_type, tip2.0),
                    );
                    break;
                }
            }
            // (3a) reservations subset of pooled inputs
            let all_in: Vec<UtxoKey> = pool.iter().flat_map(|t| t.from.iter().map(|s| s.utxoset_key)).collect();
            for k in mp.utxo_map.keys() {
                if !all_in.contains(k) {
                    r.violate(
                        format!("C14|pool|stale-reservation-after|{}", op.k),
                        format!("op {} ({}): an input is still reserved in the pool although no pooled transaction spends it", oi, op.k),
                    );
                    break;
                }
            }
            // (3b) and the other way round: every value-carrying input of a pooled transaction is reserved
            // (an unreserved one lets a second spender into the pool)
            for t in &pool {
                if t.transaction_type != TransactionType::Normal {
                    continue;
                }
                if let Some(sl) = t.from.iter().find(|s| s.amount > 0 && !mp.utxo_map.contains_key(&s.utxoset_key)) {
                    r.violate(
                        format!("C14|pool|reservation-missing-after|{}", op.k),
                        format!("op {} ({}): a pooled transaction's input (block {}, amount {}) is not reserved in the pool any more", oi, op.k, sl.block_id, sl.amount),
                    );
                    break;
                }
            }
            // (4) routing work cache
            let work: u128 = pool.iter().map(|t| t.total_work_for_me as u128).sum();
            if mp.get_routing_work_available() as u128 != work {
                r.violate("C14|pool|routing-work-cache", format!("op {} ({}): cached routing work {} but pooled transactions carry {}", oi, op.k, mp.get_routing_work_available(), work));
            }
            // (5) bundling: all or nothing
            if bundle_expected {
                let produced = tip2.1 != tip.1 && bc.get_block(&tip2.1).map(|b| b.creator == nkey.pk).unwrap_or(false);
                if produced {
                    let blk = bc.get_block(&tip2.1).unwrap();
                    for t in blk.transactions.iter().filter(|t| t.transaction_type == TransactionType::Normal) {
                        if mp.transactions.contains_key(&t.signature) {
                            r.violate("C14|bundle|bundled-tx-still-pooled", format!("op {}: a bundled transaction is still in the pool", oi));
                        }
                    }
                    r.probe("bundled_block_adopted");
                } else if tip2.1 == tip.1 {
                    // nothing produced: the staged + pooled user transactions must all still be there (unless invalid)
                    let before_sigs: Vec<[u8; 64]> = pool_before.iter().filter(|t| t.transaction_type == TransactionType::Normal).map(|t| t.signature).collect();
                    for s in before_sigs {
                        if !mp.transactions.contains_key(&s) {
                            let still_valid = pool_before.iter().find(|t| t.signature == s).map(|t| t.validate(&bc.utxoset, &bc, true)).unwrap_or(false);
                            if still_valid {
                                r.violate("C14|bundle|tx-lost-without-block", format!("op {}: bundling produced no block but a valid pooled transaction disappeared", oi));
                                break;
                            }
                        }
                    }
                    r.probe("bundle_tick_without_block");
                }
            }
            let _ = reserved_before;
            drop(mp);
            drop(bc);
            if !r.violations.is_empty() {
                break;
            }
            // (3b) active probe: an unspent output nobody in the pool spends can be spent
            if let Some(ti) = w.by_hash.get(&tip2.1).cloned() {
                let mut l2 = w.ledger_at(ti);
                l2.utxo.retain(|_, s| s.block_id >= held_from);
                let (pooled_in, staged_in): (Vec<UtxoKey>, Vec<UtxoKey>) = {
                    let mp = block_on(sim.nodes[n].mempool_lock.read());
                    (mp.transactions.values().flat_map(in_keys).collect(), sim.nodes[n].consensus.txs_for_mempool.iter().flat_map(in_keys).collect())
                };
                let cand = (1..=3usize).flat_map(|u| l2.unspent_of(&w.keys[u].pk)).find(|s| !pooled_in.contains(&s.key()) && !staged_in.contains(&s.key()));
                if let Some(s) = cand {
                    let owner = w.keys.iter().find(|k| k.pk == s.pk).unwrap().clone();
                    tagc += 1;
                    let mut t = make_tx(&owner, &[s.clone()], &[(owner.pk, s.amount)], sim.now() + tagc, &tagc.to_le_bytes());
                    t.generate(&nkey.pk, 0, 0);
                    let sig = t.signature;
                    let accepted = {
                        let bc = block_on(sim.nodes[n].blockchain_lock.read());
                        let mut mp = block_on(sim.nodes[n].mempool_lock.write());
                        let flag = mp.new_tx_added;
                        block_on(mp.add_transaction_if_validates(t.clone(), &bc));
                        let ok = mp.transactions.contains_key(&sig);
                        if ok {
                            // undo the probe
                            mp.transactions.remove(&sig);
                            for k in in_keys(&t) {
                                mp.utxo_map.remove(&k);
                            }
                            mp.delete_transactions(&vec![]);
                            mp.new_tx_added = flag;
                        }
                        ok
                    };
                    if !accepted {
                        r.violate(
                            format!("C14|funds-locked-after|{}", op.k),
                            format!("op {} ({}): output {}-{}-{} ({} nolan) is unspent and no pooled transaction spends it, but a fresh valid transaction spending it is refused by the pool", oi, op.k, s.block_id, s.tx_ordinal, s.slip_index, s.amount),
                        );
                        break;
                    }
                    r.probe("active_probe_accepted");
                }
            }
            r.steps += 1;
        }
        r.sim_time_ms = sim.now() - start;
        if conflicts > 0 {
            let mut d = Digest::new();
            for o in &plan.ops {
                d.str(&o.k).u64(o.a % 4).u64(o.b % 4);
            }
            r.nontrivial.push(d.get());
        }
        r.schedule_hash = sim.schedule_digest.get();
        trace.bytes(&sim.nodes[n].tip().1);
        r.state_hash = trace.get();
        r.trace_hash = trace.get();
        r
    }
    fn shrink(&self, plan: &Value) -> Vec<Value> {
        let p: Plan = match serde_json::from_value(plan.clone()) {
            Ok(p) => p,
            Err(_) => return vec![],
        };
        let mut out = vec![];
        if p.ops.len() > 1 {
            let mut q = p.clone();
            q.ops.pop();
            out.push(q);
        }
        for i in 0..p.ops.len() {
            if p.ops.len() > 1 {
                let mut q = p.clone();
                q.ops.remove(i);
                out.push(q);
            }
        }
        if p.depth > 2 {
            let mut q = p.clone();
            q.depth = 2;
            out.push(q);
        }
        out.into_iter().map(|p| serde_json::to_value(p).unwrap()).collect()
    }
}

/// The staking family: a producer that starts its own chain from an issuance file with social staking on and
/// bundles by timer (real MiningThread for the tickets). Its staking transaction enters every block through the
/// pool. Users' payments, conflicts and duplicates arrive at the consensus processor; an Issuance-typed
/// transaction in the pool makes the next bundled block one the node refuses (known finding of C01: the pool
/// admits it), so that the failed-block-addition path runs with a staking transaction in the refused block.
/// The pool oracle of the first family is evaluated after every operation.
fn staking_family(plan: &Plan) -> RunResult {
    use crate::simcfg::SimConfig;
    use crate::simio::JournalOp;
    use saito_core::core::defs::PrintForLog;
    let mut r = RunResult::default();
    r.fault("social_staking_enabled", 1);
    let pk = derive_key(plan.seed, 0);
    let users: Vec<Key> = (1..=3).map(|i| derive_key(plan.seed, i)).collect();
    let mut cfg = SimConfig::new(100, 1000);
    cfg.consensus.prune_after_blocks = 8;
    cfg.consensus.default_social_stake = plan.stake;
    cfg.consensus.default_social_stake_period = 2 + plan.seed % 3;
    let mut sim = Sim::new(mix(plan.seed, 142), TS0);
    let mut opts = NodeOpts::default();
    opts.produce_blocks_by_timer = true;
    opts.mining_enabled = true;
    opts.mining_iterations = 8;
    let n = sim.add_node(&pk, &cfg, &opts);
    {
        let mut txt = String::new();
        for (ui, u) in users.iter().enumerate() {
            for s in 0..5u64 {
                txt.push_str(&format!("{}\t{}\tNormal\n", 1_000_000 * (s + 1) + ui as u64 + 30_000, u.pk.to_base58()));
            }
        }
        for s in 0..8u64 {
            txt.push_str(&format!("{}\t{}\tNormal\n", plan.stake * 3 + 30_000 + s, pk.pk.to_base58()));
        }
        let mut d = sim.nodes[n].disk.lock().unwrap();
        d.apply(&JournalOp::Write { path: "./data/issuance/issuance".to_string(), data: txt.into_bytes() });
    }
    sim.init_node(n, true);
    let start = sim.now();
    let tick_all = |sim: &mut Sim, ms: u64| {
        sim.advance(ms);
        sim.tick(n, P_ROUTING);
        sim.tick(n, P_MINING);
        sim.tick(n, P_CONSENSUS);
    };
    tick_all(&mut sim, 1100);
    sim.settle_without_fetches(20_000);
    tick_all(&mut sim, 2100);
    sim.settle_without_fetches(20_000);
    let mut trace = Digest::new();
    let mut conflicts = 0u64;
    let mut tagc = 0u64;
    let mut last_sent: Option<Transaction> = None;
    let mut refused_seen = 0u64;
    for (oi, op) in plan.ops.iter().enumerate() {
        trace.str(&op.k).u64(op.a).u64(op.b);
        // the ledger of the node's longest chain, rebuilt from its blocks (histories are short)
        let ledger_of = |sim: &Sim| -> Option<RefLedger> {
            let bc = block_on(sim.nodes[n].blockchain_lock.read());
            let mut hs = vec![];
            let mut cur = bc.get_latest_block_hash();
            while cur != [0; 32] {
                let b = bc.get_block(&cur)?;
                hs.push(cur);
                cur = b.previous_block_hash;
            }
            hs.reverse();
            let mut l = RefLedger::default();
            for h in hs {
                let b = bc.get_block(&h)?;
                if b.transactions.is_empty() && b.id > 1 {
                    return None;
                }
                l.apply(&rec_from_block(b, true, "own"));
            }
            Some(l)
        };
        let ledger = match ledger_of(&sim) {
            Some(l) => l,
            None => break,
        };
        let tip = sim.nodes[n].tip();
        let pool_before: Vec<Transaction> = {
            let mp = block_on(sim.nodes[n].mempool_lock.read());
            mp.transactions.values().cloned().collect()
        };
        let staged: Vec<Transaction> = sim.nodes[n].consensus.txs_for_mempool.clone();
        let busy: Vec<UtxoKey> = pool_before.iter().chain(staged.iter()).flat_map(in_keys).collect();
        let created_before = sim.nodes[n].consensus.stats.blocks_created.total;
        let mut bundle_expected = false;
        match op.k.as_str() {
            "tx" | "producer-tx" => {
                let u = if op.k == "producer-tx" { pk.clone() } else { users[(op.a % 3) as usize].clone() };
                let free: Vec<SlipRef> = ledger.unspent_of(&u.pk).into_iter().filter(|s| !busy.contains(&s.key())).collect();
                if !free.is_empty() {
                    let s = free[op.b as usize % free.len()].clone();
                    let fee = (op.b * 977) % (s.amount / 4 + 1);
                    tagc += 1;
                    let mut t = make_tx(&u, &[s.clone()], &[(users[((op.a + 1) % 3) as usize].pk, (s.amount - fee) / 2), (u.pk, s.amount - fee - (s.amount - fee) / 2)], sim.now() + tagc, &tagc.to_le_bytes());
                    if op.k == "tx" {
                        t.add_hop(&u.sk, &u.pk, &pk.pk);
                    }
                    t.generate(&pk.pk, 0, 0);
                    last_sent = Some(t.clone());
                    sim.nodes[n].q_consensus.push_back(ConsensusEvent::NewTransaction { transaction: t });
                    if op.k == "producer-tx" {
                        r.probe("producer_spends_own_output_by_hand");
                    }
                }
            }
            "tx-conflict" => {
                if let Some(victim) = pool_before.iter().chain(staged.iter()).find(|t| t.transaction_type == TransactionType::Normal && !in_keys(t).is_empty()) {
                    let sr = SlipRef::from_slip(victim.from.iter().find(|s| s.amount > 0).unwrap());
                    if let Some(owner) = users.iter().chain(std::iter::once(&pk)).find(|k| k.pk == sr.pk).cloned() {
                        tagc += 1;
                        let mut t = make_tx(&owner, &[sr.clone()], &[(owner.pk, sr.amount)], sim.now() + tagc, &tagc.to_le_bytes());
                        t.generate(&pk.pk, 0, 0);
                        sim.nodes[n].q_consensus.push_back(ConsensusEvent::NewTransaction { transaction: t });
                        conflicts += 1;
                        r.fault("conflicting_tx", 1);
                    }
                }
            }
            "tx-dup" => {
                if let Some(t) = last_sent.clone() {
                    sim.nodes[n].q_consensus.push_back(ConsensusEvent::NewTransaction { transaction: t });
                    r.fault("duplicate_tx", 1);
                }
            }
            "issuance-in-pool" => {
                tagc += 1;
                let mut t = make_tx(&users[0], &[], &[(users[0].pk, 1_000 + op.a)], sim.now() + tagc, &tagc.to_le_bytes());
                t.transaction_type = TransactionType::Issuance;
                t.sign(&users[0].sk);
                t.generate(&pk.pk, 0, 0);
                sim.nodes[n].q_consensus.push_back(ConsensusEvent::NewTransaction { transaction: t });
                r.fault("issuance_typed_tx_offered_to_pool", 1);
            }
            "stage" => {
                sim.advance(1001);
                sim.tick(n, P_CONSENSUS);
            }
            "bundle" => {
                bundle_expected = true;
                tick_all(&mut sim, 7_000);
            }
            _ => {}
        }
        let quiet = sim.settle_without_fetches(20_000);
        sim.nodes[n].out.lock().unwrap().msgs.clear();
        if let Some((_, what, p)) = sim.panics.first() {
            r.violate(format!("C14|panic|staking|{}|{}|{}", op.k, what, p.site()), format!("staking family, op {} ({}): {} panicked: {} ({}:{})", oi, op.k, what, p.msg.chars().take(140).collect::<String>(), p.file, p.line));
            break;
        }
        if !quiet {
            r.violate("C14|stall", format!("staking family, op {} ({}): no quiescence", oi, op.k));
            break;
        }
        let tip2 = sim.nodes[n].tip();
        {
            let bc = block_on(sim.nodes[n].blockchain_lock.read());
            let mp = block_on(sim.nodes[n].mempool_lock.read());
            let mut pool: Vec<Transaction> = mp.transactions.values().cloned().collect();
            pool.sort_by(|a, b| a.signature.cmp(&b.signature));
            let had_issuance = pool_before.iter().any(|t| t.transaction_type == TransactionType::Issuance);
            if bundle_expected && had_issuance && tip2.1 == tip.1 {
                refused_seen += 1;
                r.fault("own_staked_block_refused", 1);
            }
            // bundling yields a valid block: a block that bundle_block returned is refused only when the pool held
            // something hostile (the Issuance-typed entry) or a payment under the producer's own key made behind
            // the wallet's back (it may take the outputs the wallet then stakes)
            let created = sim.nodes[n].consensus.stats.blocks_created.total > created_before;
            let own_key_payment = pool_before.iter().chain(staged.iter()).any(|t| t.transaction_type != TransactionType::Normal || t.from.iter().any(|s| s.public_key == pk.pk));
            if created && tip2.1 == tip.1 && !had_issuance && !own_key_payment && !staged.iter().any(|t| t.transaction_type == TransactionType::Issuance) {
                r.violate(format!("C14|bundle|own-block-refused|staking|{}", op.k), format!("staking family, op {} ({}): bundle_block returned a block that the node then refused although the pool held only users' payments", oi, op.k));
            }
            // "... or leaves the pool unchanged": the producer's staking transaction lives in the pool only inside
            // bundle_block (nobody submits one in this family); one that is still pooled at a quiescent point was
            // left behind by a bundling attempt or by the hand-back of a refused block
            if pool.iter().any(|t| t.transaction_type == TransactionType::BlockStake) {
                r.violate(format!("C14|bundle|staking-tx-left-in-pool|{}", op.k), format!("staking family, op {} ({}): the producer's staking transaction is still in the pool after the operation", oi, op.k));
            }
            let mut seen: Vec<UtxoKey> = vec![];
            for t in &pool {
                for k in in_keys(t) {
                    if seen.contains(&k) {
                        r.violate("C14|pool|two-txs-spend-same-output", format!("staking family, op {} ({}): two pooled transactions spend the same output", oi, op.k));
                    }
                    seen.push(k);
                }
            }
            for t in pool.iter().filter(|t| t.transaction_type == TransactionType::Normal) {
                if !t.validate(&bc.utxoset, &bc, true) {
                    r.violate(format!("C14|pool|invalid-tx-after|{}", op.k), format!("staking family, op {} ({}): a pooled payment no longer validates against the ledger at tip {}", oi, op.k, tip2.0));
                    break;
                }
            }
            let all_in: Vec<UtxoKey> = pool.iter().flat_map(|t| t.from.iter().map(|s| s.utxoset_key)).collect();
            for k in mp.utxo_map.keys() {
                if !all_in.contains(k) {
                    r.violate(format!("C14|pool|stale-reservation-after|{}", op.k), format!("staking family, op {} ({}): an input is still reserved in the pool although no pooled transaction spends it", oi, op.k));
                    break;
                }
            }
            for t in pool.iter().filter(|t| t.transaction_type == TransactionType::Normal) {
                if let Some(sl) = t.from.iter().find(|s| s.amount > 0 && !mp.utxo_map.contains_key(&s.utxoset_key)) {
                    r.violate(format!("C14|pool|reservation-missing-after|{}", op.k), format!("staking family, op {} ({}): a pooled transaction's input (block {}, amount {}) is not reserved in the pool any more", oi, op.k, sl.block_id, sl.amount));
                    break;
                }
            }
            let work: u128 = pool.iter().map(|t| t.total_work_for_me as u128).sum();
            if mp.get_routing_work_available() as u128 != work {
                r.violate("C14|pool|routing-work-cache", format!("staking family, op {} ({}): cached routing work {} but pooled transactions carry {}", oi, op.k, mp.get_routing_work_available(), work));
            }
            if bundle_expected && tip2.1 != tip.1 {
                if let Some(blk) = bc.get_block(&tip2.1) {
                    for t in blk.transactions.iter().filter(|t| t.transaction_type == TransactionType::Normal) {
                        if mp.transactions.contains_key(&t.signature) {
                            r.violate("C14|bundle|bundled-tx-still-pooled", format!("staking family, op {}: a bundled transaction is still in the pool", oi));
                        }
                    }
                    if blk.transactions.iter().any(|t| t.transaction_type == TransactionType::BlockStake && t.from.iter().any(|s| s.amount > 0)) {
                        r.probe("staked_block_adopted");
                    }
                }
            } else if bundle_expected && !had_issuance {
                for t in pool_before.iter().filter(|t| t.transaction_type == TransactionType::Normal) {
                    if !mp.transactions.contains_key(&t.signature) && t.validate(&bc.utxoset, &bc, true) {
                        r.violate("C14|bundle|tx-lost-without-block", format!("staking family, op {}: bundling produced no block but a valid pooled transaction disappeared", oi));
                        break;
                    }
                }
            }
        }
        if !r.violations.is_empty() {
            break;
        }
        // active probe: an unspent output (a user's or the producer's own) that nobody in the pool spends can be spent
        if let Some(l2) = ledger_of(&sim) {
            let (pooled_in, staged_in): (Vec<UtxoKey>, Vec<UtxoKey>) = {
                let mp = block_on(sim.nodes[n].mempool_lock.read());
                (mp.transactions.values().flat_map(in_keys).collect(), sim.nodes[n].consensus.txs_for_mempool.iter().flat_map(in_keys).collect())
            };
            let who: Vec<Key> = if op.a % 2 == 0 { vec![pk.clone()] } else { users.clone() };
            let cand = who.iter().flat_map(|u| l2.unspent_of(&u.pk)).find(|s| !pooled_in.contains(&s.key()) && !staged_in.contains(&s.key()));
            if let Some(s) = cand {
                let owner = who.iter().find(|k| k.pk == s.pk).unwrap().clone();
                tagc += 1;
                let mut t = make_tx(&owner, &[s.clone()], &[(owner.pk, s.amount)], sim.now() + tagc, &tagc.to_le_bytes());
                t.generate(&pk.pk, 0, 0);
                let sig = t.signature;
                let accepted = {
                    let bc = block_on(sim.nodes[n].blockchain_lock.read());
                    let mut mp = block_on(sim.nodes[n].mempool_lock.write());
                    let flag = mp.new_tx_added;
                    block_on(mp.add_transaction_if_validates(t.clone(), &bc));
                    let ok = mp.transactions.contains_key(&sig);
                    if ok {
                        mp.transactions.remove(&sig);
                        for k in in_keys(&t) {
                            mp.utxo_map.remove(&k);
                        }
                        mp.delete_transactions(&vec![]);
                        mp.new_tx_added = flag;
                    }
                    ok
                };
                if !accepted {
                    r.violate(format!("C14|funds-locked-after|{}", op.k), format!("staking family, op {} ({}): output {}-{}-{} ({} nolan) is unspent and no pooled transaction spends it, but a fresh valid transaction spending it is refused by the pool", oi, op.k, s.block_id, s.tx_ordinal, s.slip_index, s.amount));
                    break;
                }
                r.probe("active_probe_accepted");
            }
        }
        r.steps += 1;
    }
    r.sim_time_ms = sim.now() - start;
    if conflicts > 0 || refused_seen > 0 {
        let mut d = Digest::new();
        d.str("staking");
        for o in &plan.ops {
            d.str(&o.k).u64(o.a % 4).u64(o.b % 4);
        }
        r.nontrivial.push(d.get());
    }
    r.schedule_hash = sim.schedule_digest.get();
    trace.bytes(&sim.nodes[n].tip().1);
    r.state_hash = trace.get();
    r.trace_hash = trace.get();
    r
}
