//! C09 — wire and disk formats round-trip and preserve identity.
//!
//! Two parts. (A) value sweep: seeded structurally valid values of every format (all slip and
//! transaction types, 0..255 slips, empty and large payloads, 0..5 hops, extreme integers, all
//! message tags, blocks in Full/Header form, handshake, chain-sync, snapshot, wallet) are
//! encoded, decoded, re-encoded, and sent across the simulated wire to a live node. (B) seam
//! monitor: a real producer/observer network runs and every byte vector that leaves a node
//! (messages) or reaches the disk (block files, wallet) is decoded with the real decoder and
//! checked at the seam; the observer restarts from disk and must report the same identities.

use saito_core::core::consensus::block::{Block, BlockType};
use saito_core::core::consensus::hop::Hop;
use saito_core::core::consensus::peers::peer_service::PeerService;
use saito_core::core::consensus::slip::{Slip, SlipType};
use saito_core::core::consensus::transaction::{Transaction, TransactionType};
use saito_core::core::consensus::wallet::Wallet;
use saito_core::core::msg::api_message::ApiMessage;
use saito_core::core::msg::block_request::BlockchainRequest;
use saito_core::core::msg::ghost_chain_sync::GhostChainSync;
use saito_core::core::msg::handshake::{HandshakeChallenge, HandshakeResponse};
use saito_core::core::msg::message::Message;
use saito_core::core::process::version::Version;
use saito_core::core::util::crypto::verify_signature;
use saito_core::core::util::serialize::Serialize as SaitoSerialize;
use serde::{Deserialize, Serialize};
use serde_json::Value;

use crate::framework::*;
use crate::l2::*;
use crate::rng::{mix, Rng};
use crate::simio::{JournalOp, BLOCK_DIR};
use crate::util::{block_on, Digest};
use crate::world::*;

pub struct C09;

#[derive(Clone, Debug, Serialize, Deserialize)]
pub struct Plan {
    pub seed: u64,
    pub part: String,
    pub n_values: usize,
}

fn gen(seed: u64, index: u64, tier: Tier) -> Plan {
    let rs = derive_run_seed(seed, "C09", index);
    let part = if index % 4 == 3 { "seam" } else { "values" };
    Plan { seed: rs, part: part.to_string(), n_values: if tier == Tier::Quick { 60 } else { 200 } }
}

const SLIP_TYPES: &[SlipType] = &[
    SlipType::Normal, SlipType::ATR, SlipType::VipInput, SlipType::VipOutput, SlipType::MinerInput, SlipType::MinerOutput, SlipType::RouterInput, SlipType::RouterOutput, SlipType::BlockStake, SlipType::Bound,
];
const TX_TYPES: &[TransactionType] = &[
    TransactionType::Normal, TransactionType::Fee, TransactionType::GoldenTicket, TransactionType::ATR, TransactionType::Vip, TransactionType::SPV, TransactionType::Issuance, TransactionType::BlockStake, TransactionType::Bound,
];

fn extreme(rng: &mut Rng) -> u64 {
    match rng.below(6) {
        0 => 0,
        1 => 1,
        2 => u64::MAX,
        3 => u64::MAX - 1,
        4 => 1u64 << 63,
        _ => rng.next_u64(),
    }
}

fn rand_slip(rng: &mut Rng, keys: &[Key]) -> Slip {
    let mut s = Slip::default();
    s.public_key = if rng.chance(1, 8) { [rng.below(256) as u8; 33] } else { rng.pick(keys).pk };
    s.amount = extreme(rng);
    s.block_id = extreme(rng);
    s.tx_ordinal = extreme(rng);
    s.slip_index = rng.below(256) as u8;
    s.slip_type = *rng.pick(SLIP_TYPES);
    s
}

fn rand_tx(rng: &mut Rng, keys: &[Key]) -> Transaction {
    let mut t = Transaction::default();
    t.timestamp = extreme(rng);
    t.transaction_type = *rng.pick(TX_TYPES);
    t.txs_replacements = match rng.below(4) {
        0 => 1,
        1 => 0,
        2 => u32::MAX,
        _ => rng.below(1000) as u32,
    };
    let nin = match rng.below(5) {
        0 => 0,
        1 => 1,
        2 => 255,
        _ => rng.below(12) as usize,
    };
    let nout = match rng.below(5) {
        0 => 0,
        1 => 1,
        2 => 255,
        _ => rng.below(12) as usize,
    };
    for _ in 0..nin {
        t.from.push(rand_slip(rng, keys));
    }
    for _ in 0..nout {
        t.to.push(rand_slip(rng, keys));
    }
    let dl = match rng.below(5) {
        0 => 0,
        1 => 1,
        2 => 97,
        3 => 4096 + rng.below(3000) as usize,
        _ => rng.below(300) as usize,
    };
    t.data = (0..dl).map(|_| rng.below(256) as u8).collect();
    let signer = rng.pick(keys).clone();
    t.sign(&signer.sk);
    let hops = rng.below(6);
    let mut from = signer.clone();
    for _ in 0..hops {
        let to = rng.pick(keys).clone();
        if to.pk == from.pk {
            continue;
        }
        t.add_hop(&from.sk, &from.pk, &to.pk);
        from = to;
    }
    t
}

fn check_tx_roundtrip(r: &mut RunResult, t: &Transaction, what: &str) -> Option<Vec<u8>> {
    let bytes = t.serialize_for_net();
    if bytes.len() != t.get_serialized_size() {
        r.violate(format!("C09|size-prediction|transaction|{}", what), format!("get_serialized_size {} but {} bytes were produced ({} in, {} out, {} data, {} hops)", t.get_serialized_size(), bytes.len(), t.from.len(), t.to.len(), t.data.len(), t.path.len()));
        return None;
    }
    match Transaction::deserialize_from_net(&bytes) {
        Err(_) => {
            r.violate(format!("C09|decode-fails|transaction|{}", what), format!("a structurally valid transaction ({} in, {} out, {} data bytes, {} hops, type {:?}) does not decode", t.from.len(), t.to.len(), t.data.len(), t.path.len(), t.transaction_type));
            None
        }
        Ok(mut d) => {
            if d.serialize_for_net() != bytes {
                r.violate(format!("C09|re-encode-differs|transaction|{}", what), "decode + encode changes the bytes".to_string());
            }
            if d.from != t.from.iter().map(|s| { let mut s = s.clone(); s.utxoset_key = [0; 59]; s.is_utxoset_key_set = false; s }).collect::<Vec<_>>() && d.from.len() == t.from.len() {
                // slips carry a cached key that is not transmitted; compare the transmitted fields
                for (a, b) in d.from.iter().zip(t.from.iter()) {
                    if a.public_key != b.public_key || a.amount != b.amount || a.block_id != b.block_id || a.tx_ordinal != b.tx_ordinal || a.slip_index != b.slip_index || a.slip_type != b.slip_type {
                        r.violate(format!("C09|decoded-value-differs|transaction-input|{}", what), "an input slip changed across encode/decode".to_string());
                        break;
                    }
                }
            }
            if d.to.len() != t.to.len() || d.data != t.data || d.path != t.path || d.timestamp != t.timestamp || d.transaction_type != t.transaction_type || d.txs_replacements != t.txs_replacements || d.signature != t.signature {
                r.violate(format!("C09|decoded-value-differs|transaction|{}", what), "a transaction field changed across encode/decode".to_string());
            }
            // identity: hash and signature validity are the same on both sides
            let mut a = t.clone();
            a.generate_hash_for_signature();
            d.generate_hash_for_signature();
            if a.hash_for_signature != d.hash_for_signature {
                r.violate(format!("C09|hash-changes-on-wire|transaction|{}", what), "hash for signature differs after the wire".to_string());
            } else if !t.from.is_empty() {
                let k = t.from[0].public_key;
                let va = verify_signature(&a.hash_for_signature.unwrap(), &a.signature, &k);
                let vb = verify_signature(&d.hash_for_signature.unwrap(), &d.signature, &k);
                if va != vb {
                    r.violate(format!("C09|signature-verdict-changes|transaction|{}", what), "signature validity differs after the wire".to_string());
                }
            }
            Some(bytes)
        }
    }
}

fn check_message_roundtrip(r: &mut RunResult, bytes: &[u8], what: &str) -> bool {
    match Message::deserialize(bytes.to_vec()) {
        Err(_) => {
            r.violate(format!("C09|decode-fails|message|{}", what), format!("a message produced by the encoder ({} bytes, tag {}) does not decode", bytes.len(), bytes.first().cloned().unwrap_or(0)));
            false
        }
        Ok(m) => {
            let again = m.serialize();
            if again != bytes {
                r.violate(format!("C09|re-encode-differs|message|{}", what), format!("decode + encode changes the bytes of a message with tag {} ({} -> {} bytes)", bytes[0], bytes.len(), again.len()));
                return false;
            }
            true
        }
    }
}

fn values_part(plan: &Plan) -> RunResult {
    let mut r = RunResult::default();
    let mut rng = Rng::new(mix(plan.seed, 9));
    let keys: Vec<Key> = (0..5).map(|i| derive_key(plan.seed, i)).collect();
    let mut trace = Digest::new();
    let version = saito_core::core::process::version::read_pkg_version();
    // a live node receives everything that is a message
    let w = World::new(plan.seed, Params::default());
    let mut sim = Sim::new(mix(plan.seed, 91), TS0 + 100_000);
    let n = sim.add_node(&w.keys[1].clone(), &w.cfg.clone(), &NodeOpts::default());
    sim.preload(n, &[w.recs[0].bytes.clone()]);
    sim.init_node(n, false);
    let (c, _) = sim.connect_external(0, n);
    sim.settle_without_fetches(2000);
    let _ = sim.take_ext_inbox(0);
    for i in 0..plan.n_values {
        let kind = rng.below(14);
        let mut d = Digest::new();
        d.u64(kind);
        match kind {
            0 => {
                let s = rand_slip(&mut rng, &keys);
                let b = s.serialize_for_net();
                match Slip::deserialize_from_net(&b) {
                    Ok(x) => {
                        if x.serialize_for_net() != b || x.amount != s.amount || x.block_id != s.block_id || x.tx_ordinal != s.tx_ordinal || x.slip_index != s.slip_index || x.slip_type != s.slip_type || x.public_key != s.public_key {
                            r.violate("C09|decoded-value-differs|slip", "slip changed across encode/decode".to_string());
                        }
                        let mut y = s.clone();
                        y.generate_utxoset_key();
                        match Slip::parse_slip_from_utxokey(&y.utxoset_key) {
                            Ok(z) if z.amount == s.amount && z.block_id == s.block_id && z.tx_ordinal == s.tx_ordinal && z.slip_index == s.slip_index && z.slip_type == s.slip_type && z.public_key == s.public_key => {}
                            _ => r.violate("C09|decoded-value-differs|utxo-key", "slip does not survive utxo-key encode/parse".to_string()),
                        }
                    }
                    Err(_) => r.violate("C09|decode-fails|slip", "valid slip does not decode".to_string()),
                }
                d.u64(slip_type_code(s.slip_type) as u64);
            }
            1 | 2 | 3 | 4 => {
                let t = rand_tx(&mut rng, &keys);
                d.u64(t.from.len().min(3) as u64).u64(t.to.len().min(3) as u64).u64((t.data.len() > 1000) as u64).u64(t.path.len() as u64).u64(t.transaction_type as u64);
                if check_tx_roundtrip(&mut r, &t, "sweep").is_some() {
                    let m = Message::Transaction(t).serialize();
                    if check_message_roundtrip(&mut r, &m, "transaction") {
                        sim.ext_send(c, m);
                    }
                }
            }
            5 => {
                let t = rand_tx(&mut rng, &keys);
                if let Some(h) = t.path.first() {
                    let b = h.serialize_for_net();
                    match Hop::deserialize_from_net(&b) {
                        Ok(x) if x == *h && x.serialize_for_net() == b => {}
                        _ => r.violate("C09|decoded-value-differs|hop", "hop changed across encode/decode".to_string()),
                    }
                }
            }
            6 => {
                let url_len = *rng.pick(&[0usize, 1, 20, 200]);
                // (a third of the urls / names contain characters that take more than one byte in UTF-8)
                let wide = rng.chance(1, 3);
                const WIDE: [char; 6] = ['ü', 'œ', 'ß', '漢', 'é', '𝛑'];
                let url: String = (0..url_len).map(|i| if wide && i % 5 == 2 { WIDE[rng.usize_below(WIDE.len())] } else { (b'a' + rng.below(26) as u8) as char }).collect();
                let special = rng.chance(1, 10);
                let ns = rng.below(5);
                let services: Vec<PeerService> = (0..ns)
                    .map(|k| PeerService { service: if special && k == 0 { "a|b".to_string() } else { format!("svc{}", k) }, domain: if rng.chance(1, 3) { String::new() } else if wide { "dömäin".into() } else { "dom".into() }, name: format!("n{}", rng.below(100)) })
                    .collect();
                let resp = HandshakeResponse {
                    public_key: rng.pick(&keys).pk,
                    signature: [rng.below(256) as u8; 64],
                    is_lite: rng.chance(1, 2),
                    block_fetch_url: url,
                    challenge: rng.bytes32(),
                    services: services.clone(),
                    wallet_version: Version::new(rng.below(256) as u8, rng.below(256) as u8, rng.below(65536) as u16),
                    core_version: version,
                };
                let b = resp.serialize();
                match HandshakeResponse::deserialize(&b) {
                    Ok(x) => {
                        let ok = x.public_key == resp.public_key && x.signature == resp.signature && x.is_lite == resp.is_lite && x.block_fetch_url == resp.block_fetch_url && x.challenge == resp.challenge && x.wallet_version == resp.wallet_version && x.core_version == resp.core_version && x.services.len() == resp.services.len() && x.services.iter().zip(resp.services.iter()).all(|(a, b)| a.service == b.service && a.domain == b.domain && a.name == b.name);
                        if !ok || x.serialize() != b {
                            r.violate(if special { "C09|decoded-value-differs|handshake-response|separator-in-service-name" } else { "C09|decoded-value-differs|handshake-response" }, "handshake response changed across encode/decode".to_string());
                        }
                    }
                    Err(_) => r.violate(if special { "C09|decode-fails|handshake-response|separator-in-service-name" } else { "C09|decode-fails|handshake-response" }, "valid handshake response does not decode".to_string()),
                }
                d.u64(url_len as u64).u64(ns).u64(special as u64);
                let ch = HandshakeChallenge { challenge: rng.bytes32() };
                let cb = ch.serialize();
                match HandshakeChallenge::deserialize(&cb) {
                    Ok(x) if x.challenge == ch.challenge => {}
                    _ => r.violate("C09|decoded-value-differs|handshake-challenge", "challenge changed".to_string()),
                }
            }
            7 => {
                let cnt = *rng.pick(&[0usize, 1, 2, 50]);
                let g = GhostChainSync {
                    start: rng.bytes32(),
                    prehashes: (0..cnt).map(|_| rng.bytes32()).collect(),
                    previous_block_hashes: (0..cnt).map(|_| rng.bytes32()).collect(),
                    block_ids: (0..cnt).map(|_| extreme(&mut rng)).collect(),
                    block_ts: (0..cnt).map(|_| extreme(&mut rng)).collect(),
                    txs: (0..cnt).map(|_| rng.chance(1, 2)).collect(),
                    gts: (0..cnt).map(|_| rng.chance(1, 2)).collect(),
                };
                let b = g.serialize();
                match GhostChainSync::try_deserialize(b.clone()) {
                    Ok(x) => {
                        if x.serialize() != b || x.block_ids != g.block_ids || x.txs != g.txs || x.gts != g.gts || x.prehashes != g.prehashes {
                            r.violate("C09|decoded-value-differs|ghost-chain", "ghost chain changed across encode/decode".to_string());
                        }
                    }
                    Err(_) => r.violate("C09|decode-fails|ghost-chain", format!("valid ghost chain with {} entries does not decode", cnt)),
                }
                let m = Message::GhostChain(g).serialize();
                check_message_roundtrip(&mut r, &m, "ghost-chain");
                d.u64(cnt as u64);
            }
            8 => {
                let dl = *rng.pick(&[0usize, 1, 1000]);
                let a = ApiMessage { msg_index: rng.next_u64() as u32, data: (0..dl).map(|_| rng.below(256) as u8).collect() };
                for m in [Message::ApplicationMessage(a.clone()), Message::Result(a.clone()), Message::Error(a.clone())] {
                    let b = m.serialize();
                    if check_message_roundtrip(&mut r, &b, "api") {
                        sim.ext_send(c, b);
                    }
                }
                d.u64(dl as u64);
            }
            9 => {
                let mut b = vec![];
                b.extend_from_slice(&extreme(&mut rng).to_be_bytes());
                b.extend_from_slice(&rng.bytes32());
                b.extend_from_slice(&rng.bytes32());
                match BlockchainRequest::deserialize(&b) {
                    Ok(x) if x.serialize() == b => {
                        let m = Message::BlockchainRequest(x).serialize();
                        check_message_roundtrip(&mut r, &m, "blockchain-request");
                    }
                    _ => r.violate("C09|decoded-value-differs|blockchain-request", "blockchain request changed".to_string()),
                }
                let m2 = Message::BlockHeaderHash(rng.bytes32(), extreme(&mut rng)).serialize();
                check_message_roundtrip(&mut r, &m2, "block-header-hash");
                let m3 = Message::GhostChainRequest(extreme(&mut rng), rng.bytes32(), rng.bytes32()).serialize();
                check_message_roundtrip(&mut r, &m3, "ghost-chain-request");
                for m in [Message::Ping().serialize(), Message::SPVChain().serialize()] {
                    check_message_roundtrip(&mut r, &m, "empty-body");
                }
            }
            10 => {
                let nk = *rng.pick(&[0usize, 1, 3, 100]);
                let kl: Vec<[u8; 33]> = (0..nk).map(|_| rng.pick(&keys).pk).collect();
                let m = Message::KeyListUpdate(kl.clone()).serialize();
                if check_message_roundtrip(&mut r, &m, "key-list") {
                    if let Ok(Message::KeyListUpdate(x)) = Message::deserialize(m.clone()) {
                        if x != kl {
                            r.violate("C09|decoded-value-differs|key-list", "key list changed".to_string());
                        }
                    }
                }
                d.u64(nk as u64);
            }
            11 => {
                let ns = rng.below(4);
                let sv: Vec<PeerService> = (0..ns).map(|k| PeerService { service: format!("s{}", k), domain: format!("d{}", rng.below(9)), name: String::new() }).collect();
                let m = Message::Services(sv.clone()).serialize();
                if check_message_roundtrip(&mut r, &m, "services") {
                    if let Ok(Message::Services(x)) = Message::deserialize(m) {
                        if x.len() != sv.len() || x.iter().zip(sv.iter()).any(|(a, b)| a.service != b.service || a.domain != b.domain || a.name != b.name) {
                            r.violate("C09|decoded-value-differs|services", "services changed".to_string());
                        }
                    }
                }
                d.u64(ns);
            }
            12 => {
                let k = rng.pick(&keys).clone();
                let wal = Wallet::new(k.sk, k.pk);
                let b = wal.serialize_for_disk();
                let mut w2 = Wallet::new([0; 32], [0; 33]);
                w2.deserialize_from_disk(&b);
                if w2.public_key != wal.public_key || w2.private_key != wal.private_key || w2.serialize_for_disk() != b {
                    r.violate("C09|decoded-value-differs|wallet-file", "wallet keys changed across save/load".to_string());
                }
                let v = Version::new(rng.below(256) as u8, rng.below(256) as u8, rng.below(65536) as u16);
                match Version::deserialize(&v.serialize()) {
                    Ok(x) if x == v => {}
                    _ => r.violate("C09|decoded-value-differs|version", "version changed".to_string()),
                }
            }
            _ => {
                // a block assembled from random-but-valid transactions, in Full and Header form
                let mut b = Block::new();
                b.id = extreme(&mut rng);
                b.timestamp = extreme(&mut rng);
                b.previous_block_hash = rng.bytes32();
                b.creator = rng.pick(&keys).pk;
                b.treasury = extreme(&mut rng);
                b.graveyard = extreme(&mut rng);
                b.burnfee = extreme(&mut rng);
                b.difficulty = extreme(&mut rng);
                b.total_fees = extreme(&mut rng);
                b.avg_fee_per_byte = extreme(&mut rng);
                b.previous_block_unpaid = extreme(&mut rng);
                b.avg_total_fees = extreme(&mut rng);
                b.avg_total_fees_new = extreme(&mut rng);
                b.avg_total_fees_atr = extreme(&mut rng);
                b.avg_payout_routing = extreme(&mut rng);
                b.avg_payout_mining = extreme(&mut rng);
                b.avg_nolan_rebroadcast_per_block = extreme(&mut rng);
                // every remaining numeric header field, each with its own value (a decoder that reads one
                // field from another's byte range survives equal values)
                b.total_fees_new = extreme(&mut rng);
                b.total_fees_atr = extreme(&mut rng);
                b.total_fees_cumulative = extreme(&mut rng);
                b.total_payout_routing = extreme(&mut rng);
                b.total_payout_mining = extreme(&mut rng);
                b.total_payout_treasury = extreme(&mut rng);
                b.total_payout_graveyard = extreme(&mut rng);
                b.total_payout_atr = extreme(&mut rng);
                b.avg_payout_treasury = extreme(&mut rng);
                b.avg_payout_graveyard = extreme(&mut rng);
                b.avg_payout_atr = extreme(&mut rng);
                b.fee_per_byte = extreme(&mut rng);
                let nt = rng.below(5);
                for _ in 0..nt {
                    let mut t = rand_tx(&mut rng, &keys);
                    if t.from.len() > 20 {
                        t.from.truncate(20);
                    }
                    b.transactions.push(t);
                }
                b.merkle_root = rng.bytes32();
                b.sign(&keys[0].sk);
                for ty in [BlockType::Full, BlockType::Header] {
                    let bytes = b.serialize_for_net(ty);
                    match Block::deserialize_from_net(&bytes) {
                        Ok(mut x) => {
                            if x.serialize_for_net(ty) != bytes {
                                r.violate("C09|re-encode-differs|block", format!("block ({} txs, {:?}) changes under decode + encode", nt, ty));
                            }
                            let mut y = b.clone();
                            y.created_hashmap_of_slips_spent_this_block = true;
                            x.created_hashmap_of_slips_spent_this_block = true;
                            if ty == BlockType::Full && y.generate().is_ok() && x.generate().is_ok() && (x.hash != y.hash || x.pre_hash != y.pre_hash) {
                                r.violate("C09|hash-changes-on-wire|block", "block hash differs after the wire".to_string());
                            }
                        }
                        Err(_) => r.violate("C09|decode-fails|block", format!("valid block ({} txs, {:?}) does not decode", nt, ty)),
                    }
                }
                // lite form: the projection served to light clients keeps the block's hash across the wire
                {
                    // (with a header commitment that matches the carried transactions, as on any acceptable block:
                    // the projection recomputes it)
                    let mut y = b.clone();
                    y.merkle_root = [0; 32];
                    y.created_hashmap_of_slips_spent_this_block = true;
                    let _ = y.generate();
                    y.sign(&keys[0].sk);
                    y.created_hashmap_of_slips_spent_this_block = true;
                    // (a block whose claimed leaf count is refused has no commitment and is not acceptable anyway)
                    if y.generate().is_ok() && y.merkle_root != [0; 32] {
                        let keylist = if rng.chance(1, 2) { vec![rng.pick(&keys).pk] } else { vec![] };
                        let lite = y.generate_lite_block(keylist);
                        let bytes = lite.serialize_for_net(BlockType::Full);
                        match Block::deserialize_from_net(&bytes) {
                            Ok(mut x) => {
                                x.created_hashmap_of_slips_spent_this_block = true;
                                if x.generate().is_ok() && (x.hash != y.hash || x.pre_hash != y.pre_hash) {
                                    let (a, b2) = (x.serialize_for_signature(), y.serialize_for_signature());
                                    let at = a.iter().zip(b2.iter()).position(|(p, q)| p != q);
                                    r.violate("C09|hash-changes-on-wire|lite-block", format!("the lite form of a block ({} txs) has another hash after the wire than the full block (signed header bytes first differ at {:?} of {}; signature equal: {})", nt, at, a.len(), x.signature == y.signature));
                                }
                            }
                            Err(_) => r.violate("C09|decode-fails|lite-block", format!("the lite form of a valid block ({} txs) does not decode", nt)),
                        }
                    }
                }
                d.u64(nt);
            }
        }
        r.nontrivial.push(d.get());
        trace.u64(d.get());
        if i % 10 == 9 {
            sim.advance(5);
            sim.settle_without_fetches(20_000);
            sim.fetches.clear();
            let _ = sim.take_ext_inbox(0);
            if let Some((_, what, p)) = sim.panics.first() {
                r.violate(format!("C09|panic|receiver|{}|{}", what, p.site()), format!("a node receiving a structurally valid value panicked: {} ({}:{})", p.msg.chars().take(140).collect::<String>(), p.file, p.line));
                break;
            }
        }
        if !r.violations.is_empty() {
            break;
        }
    }
    r.steps = plan.n_values as u64;
    r.state_hash = trace.get();
    r.trace_hash = trace.get();
    r
}

/// (B) everything that really crosses the seams of a running network
fn seam_part(plan: &Plan) -> RunResult {
    let mut r = RunResult::default();
    let mut w = World::new(plan.seed, Params::default());
    let mut rng = Rng::new(mix(plan.seed, 92));
    let mut cur = 0usize;
    let mut chain = vec![0usize];
    let built = crate::util::guarded(|| -> Result<(), String> {
        for i in 0..rng.range(3, 8) {
            cur = w.honest_child(cur, &mut rng, 1 + (i % 3) as usize, (w.recs[cur].id + 1) % 2 == 0, 2300, "c")?;
            chain.push(cur);
        }
        Ok(())
    });
    if !matches!(built, Ok(Ok(()))) {
        r.discarded = true;
        return r;
    }
    let start = w.recs[cur].ts + 5000;
    let mut sim = Sim::new(mix(plan.seed, 93), start);
    sim.log_deliveries = true;
    let opts = NodeOpts::default();
    let p = sim.add_node(&w.keys[0].clone(), &w.cfg.clone(), &opts);
    let mut ocfg = w.cfg.clone();
    ocfg.peers = vec![static_peer("node0")];
    let o = sim.add_node(&w.keys[2].clone(), &ocfg, &opts);
    sim.nodes[o].disk.lock().unwrap().record_journal = true;
    let pre: Vec<Vec<u8>> = chain.iter().map(|i| w.recs[*i].bytes.clone()).collect();
    sim.preload(p, &pre);
    sim.init_node(p, false);
    sim.init_node(o, false);
    for _ in 0..6 {
        sim.advance(2100);
        sim.tick(o, P_ROUTING);
        sim.tick(p, P_ROUTING);
        sim.resolve_connects(|n, _| if n == o { Some(p) } else { None });
        // fetches complete in request order (out-of-order completion is the orphan class of C03/C05/C15)
        let mut guard = 0;
        loop {
            sim.settle_without_fetches(50_000);
            if sim.fetches.is_empty() || guard > 500 {
                break;
            }
            guard += 1;
            let f = sim.fetches[0].clone();
            let body = sim.serve_fetch(&f);
            sim.complete_fetch_with(0, body);
        }
    }
    let mut trace = Digest::new();
    // wire seam
    for (_c, _dir, m) in sim.delivered_log.clone() {
        let tag = m.first().cloned().unwrap_or(0);
        check_message_roundtrip(&mut r, &m, "live-traffic");
        let mut d = Digest::new();
        d.u64(1).u64(tag as u64).u64((m.len() / 64) as u64);
        r.nontrivial.push(d.get());
        trace.u64(tag as u64);
    }
    // disk seam: every block file written by the observer decodes to the block with the hash in its name,
    // re-encodes to the same bytes and equals what the producer serves
    let journal = sim.nodes[o].disk.lock().unwrap().journal.clone();
    for op in &journal {
        if let JournalOp::Write { path, data } = op {
            if path.starts_with(BLOCK_DIR) {
                match Block::deserialize_from_net(data) {
                    Ok(mut b) => {
                        if b.generate().is_err() {
                            r.violate("C09|disk|block-does-not-generate", "a block file does not generate()".to_string());
                            continue;
                        }
                        if b.serialize_for_net(BlockType::Full) != *data {
                            r.violate("C09|re-encode-differs|block-file", "block file changes under decode + encode".to_string());
                        }
                        if !path.contains(&hex::encode(b.hash)) {
                            r.violate("C09|disk|file-name-hash-mismatch", format!("block file {} holds a block with hash {}", path, hex::encode(b.hash)));
                        }
                        if let Some(i) = w.by_hash.get(&b.hash) {
                            if w.recs[*i].bytes != *data {
                                r.violate("C09|disk|stored-bytes-differ-from-original", "the observer stored different bytes than the producer created for the same hash".to_string());
                            }
                        }
                        let mut d = Digest::new();
                        d.u64(2).u64(b.transactions.len() as u64);
                        r.nontrivial.push(d.get());
                    }
                    Err(_) => r.violate("C09|decode-fails|block-file", "a block file written by the node does not decode".to_string()),
                }
            }
        }
    }
    // identity across restart: same tip, same per-block hashes
    let before = sim.nodes[o].tip();
    let before_hashes: Vec<[u8; 32]> = {
        let bc = block_on(sim.nodes[o].blockchain_lock.read());
        let mut v: Vec<[u8; 32]> = bc.blocks.keys().cloned().collect();
        v.sort();
        v
    };
    sim.restart_node(o, &ocfg, &opts, None);
    sim.init_node(o, false);
    if let Some((_, what, p)) = sim.panics.first() {
        r.violate(format!("C09|panic|{}|{}", what, p.site()), format!("{} ({}:{})", p.msg, p.file, p.line));
    } else {
        let after = sim.nodes[o].tip();
        let after_hashes: Vec<[u8; 32]> = {
            let bc = block_on(sim.nodes[o].blockchain_lock.read());
            let mut v: Vec<[u8; 32]> = bc.blocks.keys().cloned().collect();
            v.sort();
            v
        };
        if before != after || before_hashes != after_hashes {
            r.violate("C09|disk|identity-changes-across-restart", format!("tip before restart id {} after id {}; stored hashes {} vs {}", before.0, after.0, before_hashes.len(), after_hashes.len()));
        }
    }
    if before.1 != w.recs[cur].hash {
        r.probe("observer_not_synced");
    } else {
        r.probe("observer_synced");
    }
    r.steps = sim.steps;
    trace.bytes(&before.1);
    r.state_hash = trace.get();
    r.trace_hash = trace.get();
    r
}

impl Scenario for C09 {
    fn id(&self) -> &'static str {
        "C09"
    }
    fn meta(&self) -> Meta {
        Meta {
            level: "exploration",
            rule: "three quarters of the runs: value sweep of 60/200 seeded structurally valid values per run over 14 format families (slip incl. utxo-key form, transaction with 0/1/255/random slips, 0/1/97/4-7 KiB/random payload, 0-5 hops, all 9 types, extreme integers; hop; handshake challenge/response with url 0..200 and 0-4 services; ghost chain 0..50; api messages; blockchain request / header hash / ghost request / empty-body tags; key list 0..100; services; wallet file; version; blocks in Full and Header form with 0-4 random transactions and extreme header integers): encode, predicted size, decode, field equality, re-encode byte equality, hash and signature verdict before/after; every message form is also sent to a live node (no panic). One quarter: seam monitor on a real producer + observer network (handshake, sync, fetch, add): every delivered message re-encodes to itself; every block file written by the observer decodes, generates, re-encodes to the same bytes, carries the hash of its file name and equals the producer's bytes; after a crash-free restart of the observer tip and stored hashes are unchanged. distinct_nontrivial = distinct (format, shape) decoded at a seam.",
            real: &["all serialize/deserialize pairs of slip, hop, transaction, block, message tags, handshake, block request, ghost chain, api message, peer service, version, wallet", "Transaction::get_serialized_size", "Storage::write_block_to_disk / load at restart", "routing/verification/consensus handlers on the receiving node"],
            stubs: &["SimNet", "SimDisk", "value generator (the ∀ over values is sampled: DESIGN §7)"],
            assumptions: &["reduced scope: a simulator adds nothing to a pure encode/decode function beyond carrying the sampled values across the real seams"],
        }
    }
    fn budget(&self, tier: Tier) -> Budget {
        match tier {
            Tier::Quick => Budget { max_runs: 6_000, wall_s: 40 },
            Tier::Thorough => Budget { max_runs: 400_000, wall_s: 420 },
        }
    }
    fn generate(&self, seed: u64, index: u64, tier: Tier) -> Value {
        serde_json::to_value(gen(seed, index, tier)).unwrap()
    }
    fn execute(&self, plan: &Value) -> RunResult {
        let plan: Plan = serde_json::from_value(plan.clone()).expect("plan");
        if plan.part == "seam" {
            seam_part(&plan)
        } else {
            values_part(&plan)
        }
    }
    fn shrink(&self, plan: &Value) -> Vec<Value> {
        let p: Plan = match serde_json::from_value(plan.clone()) {
            Ok(p) => p,
            Err(_) => return vec![],
        };
        let mut out = vec![];
        if p.part == "values" && p.n_values > 1 {
            let mut q = p.clone();
            q.n_values = p.n_values / 2;
            out.push(q);
            let mut q = p.clone();
            q.n_values -= 1;
            out.push(q);
        }
        out.into_iter().map(|p| serde_json::to_value(p).unwrap()).collect()
    }
}
