//! C01 — only authorised, existing, unspent outputs are ever spent.
//!
//! A chain state reached by simulation (fresh, or after a reorganisation), then one hostile item
//! derived from a valid transaction by an edit of the catalogue, offered (a) to the pool,
//! (b) inside an otherwise honest block as next tip, (c) inside a side-fork block that later
//! becomes part of the longest candidate chain. Independent oracle: reference ledger + signer.

use saito_core::core::consensus::slip::SlipType;
use saito_core::core::consensus::transaction::{Transaction, TransactionType};
use serde::{Deserialize, Serialize};
use serde_json::Value;

use crate::framework::*;
use crate::rng::{mix, Rng};
use crate::util::Digest;
use crate::world::*;

pub struct C01;

pub const EDITS: &[&str] = &[
    "forged-signature",
    "zero-signature",
    "signed-by-other-key",
    "foreign-extra-input",
    "nonexistent-input",
    "already-spent-input",
    "duplicate-input-in-tx",
    "duplicate-input-across-txs",
    "duplicate-input-across-txs-zero-lead",
    "duplicate-input-across-txs-stake-typed",
    "type-spv",
    "type-blockstake",
    "type-atr",
    "type-atr-plain-output",
    "type-issuance",
    "type-fee",
    "type-vip",
    "overspend",
];

#[derive(Clone, Debug, Serialize, Deserialize)]
pub struct Plan {
    pub seed: u64,
    pub state: String,
    pub depth: usize,
    pub edit: String,
    pub path: String,
    pub pos: usize,
    pub extra_txs: usize,
    /// prune depth of the node under test (0 = default 8): with 1 or 2 the blocks a reorganisation unwinds
    /// have already lost their transactions in memory and must be re-read
    #[serde(default)]
    pub prune_after: u64,
}

fn gen(seed: u64, tier: Tier) -> Plan {
    let mut rng = Rng::new(seed);
    let max_depth = if tier == Tier::Quick { 10 } else { 25 };
    // (depth 0 / 1: the hostile block is block #2 resp. #3, or a sibling of block #2 - the first blocks after the
    // issuance block, where rules keyed to "block #1" end)
    let depth = rng.range(0, max_depth) as usize;
    let path = if depth == 0 { rng.pick(&["pool", "block-tip"]).to_string() } else { rng.pick(&["pool", "block-tip", "block-fork", "block-fork-late"]).to_string() };
    Plan {
        seed,
        state: rng.pick(&["fresh", "after-reorg"]).to_string(),
        depth,
        edit: rng.pick(EDITS).to_string(),
        path,
        pos: rng.below(4) as usize,
        extra_txs: rng.below(4) as usize,
        prune_after: *rng.pick(&[0u64, 1, 2]),
    }
}

pub struct Hostile {
    pub txs: Vec<Transaction>,
    pub twin: Transaction,
}

/// builds the hostile transaction(s) and the honest twin at ledger state `ledger`
pub fn make_hostile(w: &mut World, ledger: &RefLedger, spent: &[SlipRef], edit: &str, ts: u64, rng: &mut Rng) -> Option<Hostile> {
    let victim = 1usize;
    let attacker = 3usize;
    let vk = w.keys[victim].clone();
    let ak = w.keys[attacker].clone();
    let vslips = ledger.unspent_of(&vk.pk);
    let aslips = ledger.unspent_of(&ak.pk);
    if vslips.is_empty() || aslips.is_empty() {
        return None;
    }
    let vin = vslips[rng.usize_below(vslips.len())].clone();
    let ain = aslips[rng.usize_below(aslips.len())].clone();
    let tag = w.next_ts_tag();
    let data = tag.to_le_bytes();
    // the honest twin: victim pays the attacker from its own output, properly signed
    let twin = make_tx(&vk, &[vin.clone()], &[(ak.pk, vin.amount / 2), (vk.pk, vin.amount - vin.amount / 2)], ts + tag, &data);
    let mut txs = vec![];
    match edit {
        "forged-signature" => {
            let mut t = twin.clone();
            t.signature[10] ^= 0x01;
            txs.push(t);
        }
        "zero-signature" => {
            let mut t = twin.clone();
            t.signature = [0; 64];
            txs.push(t);
        }
        "signed-by-other-key" => {
            // spends the victim's output, signed by the attacker
            let t = make_tx(&ak, &[vin.clone()], &[(ak.pk, vin.amount)], ts + tag, &data);
            txs.push(t);
        }
        "foreign-extra-input" => {
            // first input is the attacker's own (signature verifies against it), second is the victim's
            let t = make_tx(&ak, &[ain.clone(), vin.clone()], &[(ak.pk, ain.amount + vin.amount)], ts + tag, &data);
            txs.push(t);
        }
        "nonexistent-input" => {
            let mut ghost = vin.clone();
            ghost.block_id += 1000;
            let t = make_tx(&vk, &[ghost.clone()], &[(ak.pk, ghost.amount)], ts + tag, &data);
            txs.push(t);
        }
        "already-spent-input" => {
            let mine: Vec<&SlipRef> = spent.iter().filter(|s| s.amount > 0).collect();
            if mine.is_empty() {
                return None;
            }
            let s = (*rng.pick(&mine)).clone();
            let owner = w.keys.iter().find(|k| k.pk == s.pk)?.clone();
            let t = make_tx(&owner, &[s.clone()], &[(ak.pk, s.amount)], ts + tag, &data);
            txs.push(t);
        }
        "duplicate-input-in-tx" => {
            let t = make_tx(&vk, &[vin.clone(), vin.clone()], &[(vk.pk, vin.amount), (ak.pk, vin.amount)], ts + tag, &data);
            txs.push(t);
        }
        "duplicate-input-across-txs" => {
            let t1 = make_tx(&vk, &[vin.clone()], &[(ak.pk, vin.amount)], ts + tag, &data);
            let tag2 = w.next_ts_tag();
            let t2 = make_tx(&vk, &[vin.clone()], &[(vk.pk, vin.amount)], ts + tag2, &tag2.to_le_bytes());
            txs.push(t1);
            txs.push(t2);
        }
        "duplicate-input-across-txs-stake-typed" => {
            // the same double spend, the first spender typed BlockStake (valid with staking off: the
            // requirement is zero): whatever its type, a transaction's inputs are spent in the block
            let mut t1 = make_tx(&vk, &[vin.clone()], &[(vk.pk, vin.amount)], ts + tag, &data);
            t1.transaction_type = TransactionType::BlockStake;
            t1.sign(&vk.sk);
            let tag2 = w.next_ts_tag();
            let t2 = make_tx(&vk, &[vin.clone()], &[(ak.pk, vin.amount)], ts + tag2, &tag2.to_le_bytes());
            txs.push(t1);
            txs.push(t2);
        }
        "duplicate-input-across-txs-zero-lead" => {
            // the same double spend, but in both transactions the contested output comes second, after a
            // zero-amount input (legal: zero-value inputs are never looked up)
            let mut zero = vin.clone();
            zero.amount = 0;
            zero.slip_index = 0;
            let t1 = make_tx(&vk, &[zero.clone(), vin.clone()], &[(ak.pk, vin.amount)], ts + tag, &data);
            let tag2 = w.next_ts_tag();
            let t2 = make_tx(&vk, &[zero, vin.clone()], &[(vk.pk, vin.amount)], ts + tag2, &tag2.to_le_bytes());
            txs.push(t1);
            txs.push(t2);
        }
        "overspend" => {
            let t = make_tx(&vk, &[vin.clone()], &[(vk.pk, vin.amount), (ak.pk, 1)], ts + tag, &data);
            txs.push(t);
        }
        e if e.starts_with("type-") => {
            let ty = match e {
                "type-spv" => TransactionType::SPV,
                "type-blockstake" => TransactionType::BlockStake,
                "type-atr" | "type-atr-plain-output" => TransactionType::ATR,
                "type-issuance" => TransactionType::Issuance,
                "type-fee" => TransactionType::Fee,
                _ => TransactionType::Vip,
            };
            // victim's output moved to the attacker under a privileged type, signed by the attacker
            let mut t = Transaction::default();
            t.timestamp = ts + tag;
            t.data = data.to_vec();
            t.transaction_type = ty;
            t.add_from_slip(vin.to_slip());
            let mut o = saito_core::core::consensus::slip::Slip::default();
            o.public_key = ak.pk;
            o.amount = vin.amount;
            // "plain-output": a rebroadcast-typed transaction whose output is an ordinary slip (it then
            // escapes a count of rebroadcast *slips*; only the rebroadcast hash covers it)
            if ty == TransactionType::ATR && e != "type-atr-plain-output" {
                o.slip_type = SlipType::ATR;
            }
            t.add_to_slip(o);
            t.sign(&ak.sk);
            txs.push(t);
        }
        _ => return None,
    }
    Some(Hostile { txs, twin })
}

/// clause A, independent of any catalogue: every value-carrying input of every user transaction
/// on the node's longest chain is spendable at that point of the replay and owned by the signer
pub fn scan_chain(w: &World, n: &Node) -> Option<String> {
    let tip = n.tip().1;
    let idx = *w.by_hash.get(&tip)?;
    let mut ledger = RefLedger::default();
    for i in w.path_to(idx) {
        let rec = &w.recs[i];
        // ownership: for user transactions every value-carrying input belongs to the first input's key
        for (ti, tx) in rec.txs.iter().enumerate() {
            let user = matches!(tx.ttype, TransactionType::Normal | TransactionType::Vip | TransactionType::Bound | TransactionType::SPV | TransactionType::BlockStake);
            if user && !tx.inputs.is_empty() {
                let signer = tx.inputs[0].pk;
                for inp in &tx.inputs {
                    if inp.amount > 0 && inp.stype != SlipType::Bound && inp.pk != signer {
                        return Some(format!("block {} tx {}: input owned by another key than the signer", rec.id, ti));
                    }
                }
            }
        }
        let bad = ledger.apply(rec);
        if let Some(b) = bad.first() {
            return Some(b.clone());
        }
    }
    None
}

impl Scenario for C01 {
    fn id(&self) -> &'static str {
        "C01"
    }
    fn meta(&self) -> Meta {
        Meta {
            level: "exploration",
            rule: "run = honest history (0..10/25 blocks after the issuance block; optionally with a reorganisation so that spent/unspent differ between forks) + one hostile item from an 18-entry catalogue (forged/zero/foreign signature, foreign-owned extra input, non-existent, already-spent, duplicated input in a tx / across txs of a block, user inputs under SPV / BlockStake / ATR / Issuance / Fee / Vip type, overspend) placed at a random transaction position, offered through one of four entry paths: pool (Mempool::add_transaction_if_validates), block as next tip, block on a side fork that then becomes the longer candidate, block on top of an honest stored sibling of the tip (the hostile block is the second block of the candidate chain, so the first is wound and unwound again). Oracles: hostile tx absent from the pool; hostile block never on the longest chain, and with the tip unmoved the spendable set is exactly what it was before the block arrived; independent scan of the node's longest chain against the reference ledger (every value-carrying input spendable at that point, owned by the signer). The honest twin must be accepted, otherwise the run is discarded as trivial. distinct_nontrivial = distinct (state class, depth bucket, edit, path, position) whose twin was accepted.",
            real: &["Transaction::validate/validate_against_utxoset/generate", "Slip::validate", "Block::create/generate/validate", "Mempool::add_transaction_if_validates", "Blockchain::add_block"],
            stubs: &["SimIo", "SimConfig", "vendored ahash"],
            assumptions: &["genesis period >> depth in this family (expired inputs are exercised by C13's histories)", "staking off"],
        }
    }
    fn budget(&self, tier: Tier) -> Budget {
        match tier {
            Tier::Quick => Budget { max_runs: 30_000, wall_s: 40 },
            Tier::Thorough => Budget { max_runs: 2_000_000, wall_s: 420 },
        }
    }
    fn generate(&self, seed: u64, index: u64, tier: Tier) -> Value {
        serde_json::to_value(gen(derive_run_seed(seed, "C01", index), tier)).unwrap()
    }
    fn execute(&self, plan: &Value) -> RunResult {
        let plan: Plan = serde_json::from_value(plan.clone()).expect("plan");
        let mut r = RunResult::default();
        let mut w = World::new(plan.seed, Params::default());
        let mut rng = Rng::new(mix(plan.seed, 5));
        let mut ncfg = w.cfg.clone();
        if plan.prune_after > 0 {
            ncfg.consensus.prune_after_blocks = plan.prune_after;
        }
        let mut n = Node::new(&ncfg, &w.keys[2].clone());
        let mut trace = Digest::new();
        let mut side_tip: Option<usize> = None;
        // history
        let built = crate::util::guarded(|| -> Result<(usize, Vec<usize>), String> {
            let mut cur = 0usize;
            let mut order = vec![0usize];
            if plan.state == "after-reorg" && plan.depth >= 3 {
                // side fork of 1-2 blocks first, then the main chain overtakes it
                let mut s = 0usize;
                for _ in 0..(2 + plan.pos % 3).min(plan.depth - 1) {
                    s = w.honest_child(s, &mut rng, 2, (w.recs[s].id + 1) % 2 == 0, 2300, "side")?;
                    order.push(s);
                }
                side_tip = Some(s);
            }
            for _ in 0..plan.depth {
                let dt = 2000 + rng.below(500);
                cur = w.honest_child(cur, &mut rng, 2, (w.recs[cur].id + 1) % 2 == 0, dt, "main")?;
                order.push(cur);
            }
            Ok((cur, order))
        });
        let (tip_idx, order) = match built {
            Ok(Ok(x)) => x,
            _ => {
                r.discarded = true;
                r.probe("builder_failed");
                return r;
            }
        };
        for i in &order {
            let _ = n.add_block_bytes(&w.recs[*i].bytes.clone());
        }
        if n.tip().1 != w.recs[tip_idx].hash {
            r.discarded = true;
            r.probe("history_not_adopted");
            return r;
        }
        let ledger = w.ledger_at(tip_idx);
        // outputs spent on this chain
        let mut spent: Vec<SlipRef> = vec![];
        for i in w.path_to(tip_idx) {
            for tx in &w.recs[i].txs {
                for inp in &tx.inputs {
                    if inp.amount > 0 {
                        spent.push(inp.clone());
                    }
                }
            }
        }
        // ... and outputs that only ever existed on the abandoned side fork ("created earlier on that same
        // chain" fails for them): after the reorganisation they must be as unspendable as spent ones
        if let Some(st) = side_tip {
            let side_ledger = w.ledger_at(st);
            let mut only_side: Vec<SlipRef> = side_ledger.utxo.values().filter(|s| s.amount > 0 && !ledger.utxo.contains_key(&s.key()) && !spent.iter().any(|x| x.key() == s.key())).cloned().collect();
            only_side.sort_by_key(|s| s.key());
            if !only_side.is_empty() {
                r.probe("abandoned_fork_outputs_offered");
            }
            spent.extend(only_side);
        }
        let ts = w.recs[tip_idx].ts + 2500;
        let h = match make_hostile(&mut w, &ledger, &spent, &plan.edit, ts, &mut rng) {
            Some(h) => h,
            None => {
                r.discarded = true;
                r.probe("edit_not_applicable");
                return r;
            }
        };
        if plan.edit.starts_with("duplicate-input-across-txs") && plan.path == "pool" {
            // in the pool the second of two conflicting txs is the hostile one
        }
        let creator_pk = w.keys[0].pk;
        // injected: one hostile item per run, by entry path
        r.fault(&format!("hostile_tx_via_{}", plan.path), 1);
        let mut twin_ok = false;
        match plan.path.as_str() {
            "pool" => {
                // non-vacuity: the twin validates on this very ledger
                let mut t = h.twin.clone();
                t.generate(&creator_pk, 0, 0);
                twin_ok = t.validate(&n.bc.utxoset, &n.bc, true);
                let mut accepted = 0;
                for tx in &h.txs {
                    if n.add_tx(tx.clone()) {
                        accepted += 1;
                    }
                }
                trace.u64(accepted);
                let hostile_in_pool = if plan.edit.starts_with("duplicate-input-across-txs") { accepted >= 2 } else { accepted >= 1 };
                if hostile_in_pool {
                    r.violate(format!("C01|accepted|{}|pool", plan.edit), format!("hostile transaction ({}) entered the pool", plan.edit));
                }
            }
            "block-tip" | "block-fork" | "block-fork-late" => {
                let parent = if plan.path == "block-tip" {
                    tip_idx
                } else if plan.path == "block-fork-late" {
                    // an honest sibling of the tip, delivered first (stored, not on the longest chain); the
                    // hostile block on top of it is then the *second* block of the candidate chain: the
                    // first one is wound before the hostile one fails, and has to be unwound again
                    let pp = *w.by_hash.get(&w.recs[tip_idx].parent).unwrap();
                    match crate::util::guarded(|| w.honest_child(pp, &mut rng, 1, (w.recs[pp].id + 1) % 2 == 0, 2650, "honest-sibling")) {
                        Ok(Ok(sib)) => {
                            let oc = n.add_block_bytes(&w.recs[sib].bytes.clone()).as_ref().map(outcome_of);
                            trace.str(&format!("{:?}", oc));
                            if oc != Some(AddOutcome::Added { longest: false }) {
                                r.discarded = true;
                                r.probe("sibling_not_stored");
                                return r;
                            }
                            sib
                        }
                        _ => {
                            r.discarded = true;
                            return r;
                        }
                    }
                } else {
                    // sibling of the tip
                    *w.by_hash.get(&w.recs[tip_idx].parent).unwrap()
                };
                let pledger = w.ledger_at(parent);
                let pts = w.recs[parent].ts + 2700;
                // hostile tx must be built against the parent's ledger for the fork path
                let h = if plan.path != "block-tip" {
                    let mut sp = vec![];
                    for i in w.path_to(parent) {
                        for tx in &w.recs[i].txs {
                            for inp in &tx.inputs {
                                if inp.amount > 0 {
                                    sp.push(inp.clone());
                                }
                            }
                        }
                    }
                    match make_hostile(&mut w, &pledger, &sp, &plan.edit, pts, &mut rng) {
                        Some(h) => h,
                        None => {
                            r.discarded = true;
                            return r;
                        }
                    }
                } else {
                    h
                };
                // honest filler txs that do not touch the victim's or attacker's outputs
                let mut txs: Vec<Transaction> = vec![];
                for k in 0..plan.extra_txs {
                    if let Some((tx, _)) = w.payment(&pledger, 2, 2, k, 100, pts) {
                        if !txs.iter().any(|t: &Transaction| t.from[0].block_id == tx.from[0].block_id && t.from[0].tx_ordinal == tx.from[0].tx_ordinal && t.from[0].slip_index == tx.from[0].slip_index) {
                            txs.push(tx);
                        }
                    }
                }
                let gt = (w.recs[parent].id + 1) % 2 == 0;
                let mk = |w: &World, txs: Vec<Transaction>| -> Result<saito_core::core::consensus::block::Block, String> {
                    build_block(&w.builder, &w.keys, BlockSpec { parent: w.recs[parent].hash, ts: pts, txs, gt, creator: 0 })
                };
                let mut htxs = txs.clone();
                htxs.extend(h.txs.iter().cloned());
                let hb = crate::util::guarded(|| mk(&w, htxs));
                let hb = match hb {
                    Ok(Ok(b)) => b,
                    _ => {
                        // Block::create refuses to build it (e.g. in-block double spend): deliver a hand-assembled block instead
                        let mut ttxs = txs.clone();
                        ttxs.push(h.twin.clone());
                        let base = match crate::util::guarded(|| mk(&w, ttxs)) {
                            Ok(Ok(b)) => b,
                            _ => {
                                r.discarded = true;
                                return r;
                            }
                        };
                        let mut b = base.clone();
                        // replace the twin by the hostile txs
                        b.transactions.retain(|t| t.signature != h.twin.signature);
                        let at = plan.pos.min(b.transactions.len());
                        for (k, t) in h.txs.iter().enumerate() {
                            b.transactions.insert((at + k).min(b.transactions.len()), t.clone());
                        }
                        reseal(&mut b, &w.keys[0].clone(), true);
                        b
                    }
                };
                let hidx = w.register(hb, false, &format!("hostile:{}", plan.edit));
                let before_tip = n.tip();
                let before_keys = n.utxo_keys();
                let oc = n.add_block_bytes(&w.recs[hidx].bytes.clone()).as_ref().map(outcome_of);
                trace.str(&format!("{:?}", oc));
                let mut last = hidx;
                if plan.path == "block-fork" {
                    // an honest child makes the hostile fork the longer candidate
                    if let Ok(Ok(c)) = crate::util::guarded(|| w.honest_child(hidx, &mut rng, 1, (w.recs[hidx].id + 1) % 2 == 0, 2400, "on-hostile")) {
                        let oc2 = n.add_block_bytes(&w.recs[c].bytes.clone()).as_ref().map(outcome_of);
                        trace.str(&format!("{:?}", oc2));
                        last = c;
                    }
                }
                let _ = last;
                let tipnow = n.tip().1;
                let on_chain = w
                    .by_hash
                    .get(&tipnow)
                    .map(|ti| w.path_to(*ti).contains(&hidx))
                    .unwrap_or(true);
                if on_chain {
                    r.violate(
                        format!("C01|accepted|{}|{}", plan.edit, plan.path),
                        format!("a block carrying a hostile transaction ({}) is on the longest chain (tip {} -> {})", plan.edit, before_tip.0, n.tip().0),
                    );
                } else if n.tip() == before_tip && n.utxo_keys() != before_keys {
                    // the rejected candidate left the tip where it was: nothing it carried may have become
                    // spendable, nothing may have stopped being so
                    let after = n.utxo_keys();
                    let extra = after.iter().filter(|k| !before_keys.contains(k)).count();
                    let missing = before_keys.iter().filter(|k| !after.contains(k)).count();
                    r.violate(
                        format!("C01|spendable-set-changed-by-rejected-block|{}", plan.path),
                        format!("a rejected block carrying a hostile transaction ({}) left the tip at {} but {} outputs became spendable and {} stopped being so", plan.edit, before_tip.0, extra, missing),
                    );
                } else {
                    // control: the twin in the same position is accepted
                    let mut ttxs = txs.clone();
                    ttxs.push(h.twin.clone());
                    let ctl_parent = *w.by_hash.get(&n.tip().1).unwrap();
                    if ctl_parent == parent {
                        if let Ok(Ok(b)) = crate::util::guarded(|| mk(&w, ttxs)) {
                            let ci = w.register(b, true, "control");
                            let oc = n.add_block_bytes(&w.recs[ci].bytes.clone()).as_ref().map(outcome_of);
                            twin_ok = oc == Some(AddOutcome::Added { longest: true });
                        }
                    } else {
                        // fork path: the control is the twin validating on the parent's ledger
                        twin_ok = true;
                    }
                }
            }
            _ => {}
        }
        // clause A scan, independent of the catalogue
        if r.violations.is_empty() {
            if let Some(bad) = scan_chain(&w, &n) {
                r.violate("C01|chain-contains-unauthorised-spend", bad);
            }
        }
        if twin_ok || !r.violations.is_empty() {
            let mut d = Digest::new();
            d.str(&plan.state).u64((plan.depth / 4) as u64).str(&plan.edit).str(&plan.path).u64(plan.pos as u64);
            r.nontrivial.push(d.get());
        } else {
            r.probe("twin_rejected");
        }
        r.steps = order.len() as u64 + 2;
        r.state_hash = {
            let mut d = Digest::new();
            d.bytes(&n.tip().1).u64(n.mempool.transactions.len() as u64);
            d.get()
        };
        trace.bytes(&n.tip().1);
        r.trace_hash = trace.get();
        r
    }
    fn shrink(&self, plan: &Value) -> Vec<Value> {
        let p: Plan = match serde_json::from_value(plan.clone()) {
            Ok(p) => p,
            Err(_) => return vec![],
        };
        let mut out = vec![];
        if p.state != "fresh" {
            let mut q = p.clone();
            q.state = "fresh".into();
            out.push(q);
        }
        if p.depth > 2 {
            let mut q = p.clone();
            q.depth = 2;
            out.push(q);
            let mut q = p.clone();
            q.depth -= 1;
            out.push(q);
        }
        if p.extra_txs > 0 {
            let mut q = p.clone();
            q.extra_txs = 0;
            out.push(q);
        }
        if p.pos > 0 {
            let mut q = p.clone();
            q.pos = 0;
            out.push(q);
        }
        out.into_iter().map(|p| serde_json::to_value(p).unwrap()).collect()
    }
}
