//! C08 — routing work gates block production; payouts go only to eligible parties.
//!
//! (1) work gate: a candidate block at a timestamp offset below two heartbeats, carrying
//! transactions with fees and routing paths of several shapes (valid 1/2/3 hops, none, not
//! ending at the creator, forged hop signature, non-contiguous, self-hop); accepted only if the
//! independently computed work meets the requirement; acceptance is monotone in the offset.
//! (2) payouts: histories with fee-paying routed transactions and golden-ticket patterns; every
//! output of a Fee transaction in an accepted block goes to an eligible key and the total does
//! not exceed what the paid blocks collected.

use saito_core::core::consensus::block::Block;
use saito_core::core::consensus::golden_ticket::GoldenTicket;
use saito_core::core::consensus::hop::Hop;
use saito_core::core::consensus::transaction::{Transaction, TransactionType};
use saito_core::core::util::crypto::verify;
use serde::{Deserialize, Serialize};
use serde_json::Value;

use crate::framework::*;
use crate::rng::{mix, Rng};
use crate::util::Digest;
use crate::world::*;

pub struct C08;

pub const PATHS: &[&str] = &["valid-1", "valid-2", "valid-3", "none", "not-to-creator", "forged-sig", "non-contiguous", "self-hop", "through-creator", "through-creator-3"];

#[derive(Clone, Debug, Serialize, Deserialize)]
pub struct TxSpec {
    pub fee: u64,
    pub path: String,
    /// "" = ordinary payment; "stake" = the same payment typed BlockStake (fee-paying, outputs ordinary): its
    /// routing path counts towards the creator's work like any other
    #[serde(default)]
    pub ttype: String,
}

#[derive(Clone, Debug, Serialize, Deserialize)]
pub struct Plan {
    pub seed: u64,
    pub mode: String,
    pub prefix: usize,
    pub txs: Vec<TxSpec>,
    /// offsets from the parent, per mille of the heartbeat (2000 = two heartbeats)
    pub dts: Vec<u64>,
    /// payout mode: per block (ntx, fee, hops, gt)
    pub blocks: Vec<(usize, u64, usize, bool)>,
    /// work mode: the validating replica joined mid-chain (the parent is the first block it ever received,
    /// so its total supply is not loaded and ledger-dependent checks are off); the work gate must hold there too
    #[serde(default)]
    pub mid_chain: bool,
    /// work mode: one routed transaction whose fee is exactly one nolan below the requirement, at an offset
    /// where burnfee / elapsed has a fractional part well above one half (the requirement rounds up there)
    #[serde(default)]
    pub boundary: bool,
    /// payout mode: before the honest block of step `.0` a rival block on the same parent is offered whose
    /// golden ticket does not solve the parent's lottery: kind `.1` 0 = solved (at the parent's difficulty) against
    /// the grandparent's hash, 1 = against the genesis block's hash, 2 = against a made-up hash, 3 = aimed at the
    /// parent but not meeting its difficulty. Only where the parent's difficulty is > 0. Kind 4 is not a rival:
    /// the honest block of that step carries a ticket solved by user 2 inside a golden-ticket transaction built
    /// and signed by another key (a relayed solution); the payout oracle then runs on it as on any block.
    #[serde(default)]
    pub bad_ticket: Option<(usize, u8)>,
    /// work mode: when the offered block carries a golden ticket, its golden-ticket transaction is solved and
    /// signed by user 1, spends one of that user's outputs with this fee (`.0`) and carries a routing path of
    /// this shape (`.1`): a ticket's fee counts as routing work like any other transaction's
    #[serde(default)]
    pub ticket_fee_path: Option<(u64, String)>,
    /// work mode: the offered block does not extend the replica's tip. The replica first adopts a slow block M
    /// (30-60 s after the common parent: low burn fee) on that parent; the offered block B arrives as M's sibling
    /// and a child of B then makes that branch the longer, heavier one: B is validated during a reorganisation,
    /// where "the parent's burn fee" is not the current tip's
    #[serde(default)]
    pub via_reorg: bool,
}

const HB: u64 = 1000;

fn gen(seed: u64, tier: Tier) -> Plan {
    let mut rng = Rng::new(seed);
    if rng.chance(1, 12) {
        // rebroadcast family: prefix = genesis period (3..5), dts[0] = offset of the offered block
        let dts = vec![*rng.pick(&[100u64, 300, 700, 1200, 1700]) + rng.below(50)];
        return Plan { seed, mode: "atr-work".into(), prefix: rng.range(3, 5) as usize, txs: vec![], dts, blocks: vec![], mid_chain: false, boundary: false, bad_ticket: None, ticket_fee_path: None, via_reorg: false };
    }
    if rng.chance(1, 2) {
        let n = rng.range(1, if tier == Tier::Quick { 6 } else { 8 }) as usize;
        let txs = (0..n)
            .map(|_| TxSpec {
                fee: *rng.pick(&[0u64, 1_000, 20_000, 60_000, 150_000]) + rng.below(500),
                path: if rng.chance(2, 3) { rng.pick(&["valid-1", "valid-2", "valid-3", "none"]).to_string() } else { rng.pick(PATHS).to_string() },
                ttype: if rng.chance(1, 6) { "stake".to_string() } else { String::new() },
            })
            .collect();
        let mut dts: Vec<u64> = vec![];
        for _ in 0..2 {
            dts.push(*rng.pick(&[1u64, 50, 200, 500, 900, 1500, 1999, 2000, 2500]) + rng.below(40));
        }
        dts.sort();
        let mid_chain = rng.chance(1, 4);
        let boundary = rng.chance(1, 5);
        let ticket_fee_path = if rng.chance(1, 3) { Some((*rng.pick(&[1_000u64, 20_000, 150_000]) + rng.below(500), rng.pick(PATHS).to_string())) } else { None };
        let via_reorg = !mid_chain && !boundary && rng.chance(1, 4);
        Plan { seed, mode: "work".into(), prefix: rng.range(1, 3) as usize, txs, dts, blocks: vec![], mid_chain, boundary, bad_ticket: None, ticket_fee_path, via_reorg }
    } else {
        let n = rng.range(4, if tier == Tier::Quick { 10 } else { 20 }) as usize;
        let gt_style = rng.below(4);
        let blocks: Vec<(usize, u64, usize, bool)> = (0..n)
            .map(|i| {
                let gt = match gt_style {
                    0 => i % 2 == 1,
                    1 => i % 3 == 2,
                    // a ticket in every block: the lottery difficulty climbs by one per block
                    2 => i < 12,
                    _ => rng.chance(1, 2),
                };
                (rng.range(1, 4) as usize, rng.below(80_000), rng.below(4) as usize, gt)
            })
            .collect();
        let bad_ticket = if rng.chance(1, 2) { Some((rng.range(2, n as u64) as usize, rng.below(5) as u8)) } else { None };
        Plan { seed, mode: "payout".into(), prefix: 0, txs: vec![], dts: vec![], blocks, mid_chain: false, boundary: false, bad_ticket, ticket_fee_path: None, via_reorg: false }
    }
}

/// independent routing-work computation for `creator` (u128), None if the tx has a
/// cryptographically invalid / non-contiguous / self-hop path (which makes the tx itself invalid)
pub fn ref_work(tx: &Transaction, creator: &[u8; 33]) -> Option<u128> {
    let tin: u128 = tx.from.iter().map(|s| s.amount as u128).sum();
    let tout: u128 = tx.to.iter().map(|s| s.amount as u128).sum();
    let fee = tin.saturating_sub(tout);
    for (i, h) in tx.path.iter().enumerate() {
        let mut msg = tx.signature.to_vec();
        msg.extend_from_slice(&h.to);
        if !verify(&msg, &h.sig, &h.from) {
            return None;
        }
        if h.from == h.to {
            return None;
        }
        if i > 0 && h.from != tx.path[i - 1].to {
            return None;
        }
    }
    if tx.path.is_empty() {
        return Some(0);
    }
    if &tx.path[tx.path.len() - 1].to != creator {
        return Some(0);
    }
    let mut w = fee;
    for _ in 1..tx.path.len() {
        w -= w / 2;
    }
    Some(w)
}

fn add_path(w: &World, tx: &mut Transaction, user: usize, kind: &str) {
    let n = w.params.n_users;
    let creator = &w.keys[0];
    let r1 = &w.keys[n + 1];
    let r2 = &w.keys[n + 2];
    let u = &w.keys[user];
    match kind {
        "valid-1" => tx.add_hop(&u.sk, &u.pk, &creator.pk),
        "valid-2" => {
            tx.add_hop(&u.sk, &u.pk, &r1.pk);
            tx.add_hop(&r1.sk, &r1.pk, &creator.pk);
        }
        "valid-3" => {
            tx.add_hop(&u.sk, &u.pk, &r1.pk);
            tx.add_hop(&r1.sk, &r1.pk, &r2.pk);
            tx.add_hop(&r2.sk, &r2.pk, &creator.pk);
        }
        "not-to-creator" => tx.add_hop(&u.sk, &u.pk, &r1.pk),
        // the creator relayed the transaction onwards: a valid path on which the creator is a
        // recipient, but not the last one — no work was delivered to it
        "through-creator" => {
            tx.add_hop(&u.sk, &u.pk, &creator.pk);
            tx.add_hop(&creator.sk, &creator.pk, &r1.pk);
        }
        "through-creator-3" => {
            tx.add_hop(&u.sk, &u.pk, &r1.pk);
            tx.add_hop(&r1.sk, &r1.pk, &creator.pk);
            tx.add_hop(&creator.sk, &creator.pk, &r2.pk);
        }
        "forged-sig" => {
            tx.add_hop(&u.sk, &u.pk, &creator.pk);
            tx.path[0].sig[7] ^= 1;
        }
        "non-contiguous" => {
            tx.add_hop(&u.sk, &u.pk, &r1.pk);
            tx.add_hop(&r2.sk, &r2.pk, &creator.pk);
        }
        "self-hop" => {
            let mut h = Hop::generate(&u.sk, &u.pk, &creator.pk, tx);
            // a hop from the creator to itself, properly signed
            h = Hop::generate(&creator.sk, &creator.pk, &creator.pk, tx);
            let first = Hop::generate(&u.sk, &u.pk, &creator.pk, tx);
            tx.path.push(first);
            tx.path.push(h);
        }
        _ => {}
    }
}

/// rebroadcast family: past the genesis window every block carries rebroadcast (ATR) transactions that the
/// producer itself generates and that charge a fee. They are nobody's routed transactions: a block whose only
/// "routing work" is a path somebody attached to them must not pass the work gate
fn atr_work_family(plan: &Plan) -> RunResult {
    let mut r = RunResult::default();
    let gp = plan.prefix as u64;
    let params = Params { genesis_period: gp, heartbeat: HB, n_users: 3, slips_per_user: 4, base_amount: 5_000_000 };
    let mut rng = Rng::new(mix(plan.seed, 0xa7c));
    let mut c = match crate::util::guarded(|| Chain::new(plan.seed, params.clone(), 8)) {
        Ok(Ok(c)) => c,
        _ => {
            r.discarded = true;
            return r;
        }
    };
    // history past the window, with fee-paying payments so that the fee level (and so the rebroadcast fee) is > 0
    let target = gp + 2 + rng.below(gp);
    while c.tip_rec().id < target {
        let mut txs = vec![];
        let mut used = vec![];
        for _ in 0..2 {
            let user = 1 + rng.usize_below(3);
            if let Some((t, inp)) = c.payment(user, 1 + rng.usize_below(3), rng.usize_below(64), 40_000 + rng.below(100_000), 0, &used) {
                used.push(inp.key());
                txs.push(t);
            }
        }
        if txs.is_empty() {
            let tag = c.tag();
            let ts = c.tip_rec().ts + tag;
            txs.push(make_tx(&c.keys[1].clone(), &[], &[(c.keys[1].pk, 0)], ts, &tag.to_le_bytes()));
        }
        let tip_hash = c.tip_rec().hash;
        let want = (c.tip_rec().id + 1) % 2 == 0;
        let gt = want || !c.node.bc.is_golden_ticket_count_valid(tip_hash, want, false, false);
        if !matches!(crate::util::guarded(|| c.extend(txs, gt, 2 * HB + 300)), Ok(Ok(_))) {
            r.discarded = true;
            r.probe("atr_family_producer_refused");
            return r;
        }
    }
    let prec = c.tip_rec().clone();
    let parent_burnfee = prec.burnfee;
    let dt = plan.dts.first().cloned().unwrap_or(300).clamp(1, 2 * HB - 1);
    let tag = c.tag();
    let plain = make_tx(&c.keys[1].clone(), &[], &[(c.keys[1].pk, 0)], prec.ts + tag, &tag.to_le_bytes());
    let need_gt = !c.node.bc.is_golden_ticket_count_valid(prec.hash, false, false, false);
    let spec = BlockSpec { parent: prec.hash, ts: prec.ts + dt, txs: vec![plain], gt: need_gt, creator: 0 };
    let b = match crate::util::guarded(|| build_block(&c.node, &c.keys, spec)) {
        Ok(Ok(b)) => b,
        _ => {
            r.discarded = true;
            return r;
        }
    };
    let atr_fees: u64 = b.total_fees_atr;
    let n_atr = b.transactions.iter().filter(|t| t.transaction_type == TransactionType::ATR).count();
    if n_atr == 0 || atr_fees == 0 || parent_burnfee / dt == 0 {
        r.discarded = true;
        r.probe("atr_family_nothing_to_claim");
        return r;
    }
    // the creator claims the rebroadcast fees as routing work: an (unsigned) hop to itself on every ATR transaction
    let creator = c.keys[0].clone();
    let mut forged = b.clone();
    for t in forged.transactions.iter_mut().filter(|t| t.transaction_type == TransactionType::ATR) {
        t.path.push(Hop { from: c.keys[1].pk, to: creator.pk, sig: [0u8; 64] });
    }
    reseal(&mut forged, &creator, true);
    r.fault("routing_path_attached_to_rebroadcast_transactions", 1);
    let mut trace = Digest::new();
    for (label, blk) in [("honest", &b), ("forged", &forged)] {
        let mut n = Node::new(&c.cfg, &c.keys[2].clone());
        for rec in &c.recs {
            let _ = n.add_block_bytes(&rec.bytes);
        }
        if n.tip().1 != prec.hash {
            r.discarded = true;
            return r;
        }
        let bytes = blk.serialize_for_net(saito_core::core::consensus::block::BlockType::Full);
        let oc = match crate::util::guarded(|| n.add_block_bytes(&bytes).as_ref().map(outcome_of)) {
            Ok(oc) => oc,
            Err(p) => {
                r.violate(format!("C08|panic|{}", p.site()), format!("rebroadcast family ({} block): {} ({}:{})", label, p.msg, p.file, p.line));
                return r;
            }
        };
        trace.str(label).str(&format!("{:?}", oc));
        r.steps += 1;
        if oc == Some(AddOutcome::Added { longest: true }) {
            r.violate(
                format!("C08|accepted|insufficient-work|rebroadcast-fees-claimed|{}", label),
                format!(
                    "genesis period {}, block {} offered {} ms after its parent (burn fee {}: requirement {}) with no routed transaction at all was accepted ({} block; {} rebroadcast transactions charging {} in fees{})",
                    gp,
                    prec.id + 1,
                    dt,
                    parent_burnfee,
                    parent_burnfee / dt,
                    label,
                    n_atr,
                    atr_fees,
                    if label == "forged" { ", each with an unsigned hop to the creator attached" } else { "" }
                ),
            );
            return r;
        }
    }
    let mut d = Digest::new();
    d.u64(gp).u64(dt / 100).u64(n_atr as u64).u64(0xa7c);
    r.nontrivial.push(d.get());
    r.state_hash = trace.get();
    r.trace_hash = trace.get();
    r
}

impl Scenario for C08 {
    fn id(&self) -> &'static str {
        "C08"
    }
    fn meta(&self) -> Meta {
        Meta {
            level: "exploration",
            rule: "three families. rebroadcast (one run in twelve): producer chain with genesis period 3..5 grown past the window with fee-paying payments, then a block 0.1-1.7 s after its parent with no routed transaction, whose rebroadcast (ATR) transactions charge fees: offered as built and with an unsigned hop to the creator attached to every rebroadcast transaction - neither may pass the work gate. work (a fifth of its runs: one routed transaction whose fee is exactly the integer part of parent burn fee / elapsed at an offset where the fraction is 0.6..0.95, i.e. one nolan below the rounded requirement - must be refused): parent chain of 1-3 blocks, then the same transaction set (1-6/8 payments, fee classes 0..150k nolan, path shapes valid-1/2/3 hops, none, not ending at the creator, passing through the creator but ending elsewhere, forged hop signature, non-contiguous, self-hop) (one transaction in six typed BlockStake instead of Normal; in a third of the runs the block's golden-ticket transaction itself pays a fee from an output of its solver and carries one of the path shapes) bundled (in a quarter of the runs offered as a sibling of a slow block the replica adopted first and made the longer, heavier branch by a child, so that it is validated during a reorganisation) at two timestamp offsets drawn from {0.001, 0.05, 0.2, 0.5, 0.9, 1.5, 1.999, 2.0, 2.5} heartbeats (+jitter), each offered to a fresh replica. Oracle: accepted => every path cryptographically valid, contiguous, no self-hop; and for offset < 2 heartbeats independently computed work (u128, halving per hop after the first, only paths ending at the creator) >= parent_burnfee/offset - 1; acceptance at the smaller offset implies acceptance at the larger; offset >= 2 heartbeats needs no work. payout: histories of 4-10/20 blocks with routed fee-paying transactions and four ticket patterns (every 2nd, every 3rd, every block, random); for every accepted block with a Fee transaction: each output goes to the ticket's key, to a hop recipient of a transaction in the blocks being paid (previous; and the one before when the previous had no ticket), or to the sender of a path-less transaction there; sum of outputs <= fees collected by those blocks (u128). In half of the payout runs one step first offers a rival block on the same parent whose golden ticket does not solve the parent's lottery (solved at the parent's difficulty against the grandparent's / the genesis block's / a made-up hash, or aimed at the parent but below its difficulty; only where the parent's difficulty is > 0, reached through the ticket-in-every-block pattern): it must not be accepted; a fifth kind lets the honest block carry a ticket solved by one key inside a golden-ticket transaction signed by another (the miner payout belongs to the solver). distinct_nontrivial = distinct (offset bucket, path-shape multiset, margin sign) resp. (payout history digest).",
            real: &["BurnFee", "Transaction::generate_total_work/validate_routing_path/get_winning_routing_node", "Block::validate (work check, golden ticket, fee transaction)", "Block::find_winning_router", "Hop"],
            stubs: &["SimIo", "SimConfig", "vendored ahash"],
            assumptions: &["secp256k1/blake3 wrappers (verify) are trusted primitives of the oracle", "genesis period >> depth"],
        }
    }
    fn budget(&self, tier: Tier) -> Budget {
        match tier {
            Tier::Quick => Budget { max_runs: 30_000, wall_s: 40 },
            Tier::Thorough => Budget { max_runs: 1_000_000, wall_s: 420 },
        }
    }
    fn generate(&self, seed: u64, index: u64, tier: Tier) -> Value {
        serde_json::to_value(gen(derive_run_seed(seed, "C08", index), tier)).unwrap()
    }
    fn execute(&self, plan: &Value) -> RunResult {
        let plan: Plan = serde_json::from_value(plan.clone()).expect("plan");
        if plan.mode == "atr-work" {
            return atr_work_family(&plan);
        }
        let mut r = RunResult::default();
        let mut params = Params::default();
        params.heartbeat = HB;
        let mut w = World::new(plan.seed, params);
        let mut rng = Rng::new(mix(plan.seed, 8));
        let mut trace = Digest::new();
        if plan.mode == "work" {
            let built = crate::util::guarded(|| -> Result<Vec<usize>, String> {
                let mut cur = 0;
                let mut v = vec![0];
                for _ in 0..plan.prefix {
                    cur = w.honest_child(cur, &mut rng, 1, (w.recs[cur].id + 1) % 2 == 0, 2 * HB + 300, "prefix")?;
                    v.push(cur);
                }
                Ok(v)
            });
            let chain = match built {
                Ok(Ok(v)) => v,
                _ => {
                    r.discarded = true;
                    return r;
                }
            };
            let parent = *chain.last().unwrap();
            let prec = w.recs[parent].clone();
            let ledger = w.ledger_at(parent);
            if plan.boundary {
                // the requirement is round(parent burn fee / elapsed ms): where the quotient's fraction is
                // clearly above one half it rounds up, so work equal to the integer part is one nolan short
                let user = 1usize;
                let mine = ledger.unspent_of(&w.keys[user].pk);
                let base_dt = (plan.dts[0] * HB / 1000).clamp(3, 2 * HB - 50);
                let mut found: Option<(u64, u64)> = None;
                for dt in base_dt..base_dt + 40 {
                    let (q, rem) = (prec.burnfee / dt, prec.burnfee % dt);
                    let frac_pm = rem * 1000 / dt;
                    if dt < 2 * HB && q >= 2 && (600..=950).contains(&frac_pm) {
                        found = Some((dt, q));
                        break;
                    }
                }
                let inp = mine.iter().find(|s| found.map_or(false, |(_, q)| s.amount > q + 10)).cloned();
                if let (Some((dt, q)), Some(inp)) = (found, inp) {
                    let tag = w.next_ts_tag();
                    let mut tx = make_tx(&w.keys[user].clone(), &[inp.clone()], &[(w.keys[user].pk, inp.amount - q)], prec.ts + tag, &tag.to_le_bytes());
                    add_path(&w, &mut tx, user, "valid-1");
                    let gt = (prec.id + 1) % 2 == 0;
                    let spec = BlockSpec { parent: prec.hash, ts: prec.ts + dt, txs: vec![tx], gt, creator: 0 };
                    if let Ok(Ok(b)) = crate::util::guarded(|| build_block(&w.builder, &w.keys, spec)) {
                        let bytes = b.serialize_for_net(saito_core::core::consensus::block::BlockType::Full);
                        let mut n = Node::new(&w.cfg, &w.keys[1].clone());
                        for i in &chain {
                            let _ = n.add_block_bytes(&w.recs[*i].bytes.clone());
                        }
                        if n.tip().1 == prec.hash {
                            let oc = n.add_block_bytes(&bytes).as_ref().map(outcome_of);
                            r.steps += 1;
                            r.fault("work_one_nolan_below_a_requirement_that_rounds_up", 1);
                            trace.u64(dt).u64(q);
                            if oc == Some(AddOutcome::Added { longest: true }) {
                                r.violate(
                                    "C08|accepted|insufficient-work|rounding-boundary",
                                    format!("block at offset {} ms accepted with routing work {} although parent burn fee {} / {} ms = {}.{:03} rounds to {}", dt, q, prec.burnfee, dt, q, prec.burnfee % dt * 1000 / dt, q + 1),
                                );
                            }
                            let mut d = Digest::new();
                            d.u64(dt).u64(q % 97).u64(0xb0);
                            r.nontrivial.push(d.get());
                        }
                    }
                } else {
                    r.probe("boundary_not_constructible");
                }
                r.state_hash = trace.get();
                r.trace_hash = trace.get();
                return r;
            }
            // one tx set, re-used at both offsets
            let mut txs: Vec<Transaction> = vec![];
            let mut used: Vec<UtxoKey> = vec![];
            for (k, spec) in plan.txs.iter().enumerate() {
                let user = 1 + (k % w.params.n_users);
                let mine: Vec<SlipRef> = ledger.unspent_of(&w.keys[user].pk).into_iter().filter(|s| !used.contains(&s.key())).collect();
                if mine.is_empty() {
                    continue;
                }
                let inp = mine[rng.usize_below(mine.len())].clone();
                used.push(inp.key());
                let fee = spec.fee.min(inp.amount / 2);
                let tag = w.next_ts_tag();
                let mut tx = make_tx(&w.keys[user].clone(), &[inp.clone()], &[(w.keys[user].pk, inp.amount - fee)], prec.ts + tag, &tag.to_le_bytes());
                if spec.ttype == "stake" {
                    tx.transaction_type = TransactionType::BlockStake;
                    tx.sign(&w.keys[user].sk);
                    r.fault("stake_typed_fee_paying_tx", 1);
                }
                add_path(&w, &mut tx, user, &spec.path);
                txs.push(tx);
            }
            if txs.is_empty() {
                r.discarded = true;
                return r;
            }
            let creator_pk = w.keys[0].pk;
            let mut base_work: u128 = 0;
            let mut base_invalid_path = false;
            for t in &txs {
                match ref_work(t, &creator_pk) {
                    Some(x) => base_work += x,
                    None => base_invalid_path = true,
                }
            }
            // the input of a fee-paying golden-ticket transaction, if this plan has one
            let ticket_input: Option<SlipRef> = ledger.unspent_of(&w.keys[1].pk).into_iter().find(|s| !used.contains(&s.key()) && s.amount > 400_000);
            let mut accepted: Vec<(u64, bool)> = vec![];
            for dt_pm in &plan.dts {
                let dt = (*dt_pm * HB / 1000).max(1);
                let gt = (prec.id + 1) % 2 == 0;
                let spec = BlockSpec { parent: prec.hash, ts: prec.ts + dt, txs: txs.clone(), gt, creator: 0 };
                let mut total_work = base_work;
                let mut any_invalid_path = base_invalid_path;
                let built = match (&plan.ticket_fee_path, &ticket_input, gt) {
                    (Some((fee, shape)), Some(inp), true) => {
                        let pblock: Block = w.block(parent);
                        if pblock.difficulty > 18 {
                            r.discarded = true;
                            return r;
                        }
                        let solver = w.keys[1].clone();
                        let ticket = mine_gt(prec.hash, pblock.difficulty, &solver, 0x7e57);
                        let wref = &w;
                        let edit = move |t: &mut Transaction| {
                            t.add_from_slip(inp.to_slip());
                            let mut o = saito_core::core::consensus::slip::Slip::default();
                            o.public_key = solver.pk;
                            o.amount = inp.amount - *fee;
                            t.add_to_slip(o);
                            t.sign(&solver.sk);
                            add_path(wref, t, 1, shape);
                        };
                        r.fault("fee_paying_golden_ticket_with_path", 1);
                        crate::util::guarded(|| build_block_custom(&w.builder, &w.keys, spec, Some((ticket, 1)), Some(&edit)))
                    }
                    _ => crate::util::guarded(|| build_block(&w.builder, &w.keys, spec)),
                };
                let b = match built {
                    Ok(Ok(b)) => b,
                    _ => {
                        r.discarded = true;
                        return r;
                    }
                };
                if let Some(g) = b.transactions.iter().find(|t| t.transaction_type == TransactionType::GoldenTicket && !t.path.is_empty()) {
                    match ref_work(g, &creator_pk) {
                        Some(x) => total_work += x,
                        None => any_invalid_path = true,
                    }
                }
                let bytes = b.serialize_for_net(saito_core::core::consensus::block::BlockType::Full);
                let mut n = Node::new(&w.cfg, &w.keys[1].clone());
                let joined_here = plan.mid_chain && chain.len() >= 2;
                for (ci, i) in chain.iter().enumerate() {
                    if joined_here && ci + 1 < chain.len() {
                        continue;
                    }
                    let _ = n.add_block_bytes(&w.recs[*i].bytes.clone());
                }
                if joined_here {
                    r.probe("replica_joined_mid_chain");
                }
                if n.tip().1 != prec.hash {
                    r.discarded = true;
                    return r;
                }
                let ok = if plan.via_reorg {
                    // slow sibling first, then the offered block as a stored side block, then its child
                    let m = match crate::util::guarded(|| w.honest_child(parent, &mut rng, 1, (prec.id + 1) % 2 == 0, 30_000 + 1000 * (dt % 30), "slow-main")) {
                        Ok(Ok(m)) => m,
                        _ => {
                            r.discarded = true;
                            return r;
                        }
                    };
                    let om = n.add_block_bytes(&w.recs[m].bytes.clone()).as_ref().map(outcome_of);
                    if om != Some(AddOutcome::Added { longest: true }) {
                        r.discarded = true;
                        r.probe("slow_main_block_refused");
                        return r;
                    }
                    let ob = n.add_block_bytes(&bytes).as_ref().map(outcome_of);
                    let bi = w.register(b.clone(), true, "offered-as-side-block");
                    let child = crate::util::guarded(|| w.honest_child(bi, &mut rng, 1, (prec.id + 2) % 2 == 0, 2 * HB + 300, "child-of-offered"));
                    match (ob, child) {
                        (Some(AddOutcome::Added { longest: false }), Ok(Ok(ci))) => {
                            let _ = n.add_block_bytes(&w.recs[ci].bytes.clone());
                            r.fault("offered_block_validated_during_a_reorganisation", 1);
                            n.tip().1 == w.recs[ci].hash
                        }
                        (Some(AddOutcome::Added { longest: true }), _) => true,
                        _ => false,
                    }
                } else {
                    let oc = n.add_block_bytes(&bytes).as_ref().map(outcome_of);
                    oc == Some(AddOutcome::Added { longest: true })
                };
                trace.u64(dt).u64(ok as u64);
                accepted.push((dt, ok));
                r.steps += 1;
                // requirement, independently: parent burn fee / elapsed ms (real division), zero from two heartbeats on
                let need_times_dt: u128 = prec.burnfee as u128; // need = burnfee / dt
                let gated = dt < 2 * HB;
                if ok {
                    if any_invalid_path {
                        r.violate("C08|accepted|invalid-routing-path", format!("block at offset {} ms accepted although a transaction carries a forged / non-contiguous / self-hop path", dt));
                    }
                    if gated && (total_work + 1) * (dt as u128) < need_times_dt {
                        r.violate(
                            "C08|accepted|insufficient-work",
                            format!("block at offset {} ms accepted with routing work {} but parent burn fee {} / {} ms requires {}", dt, total_work, prec.burnfee, dt, need_times_dt / dt as u128),
                        );
                    }
                } else if !any_invalid_path && (!gated || total_work * (dt as u128) >= need_times_dt + 2 * dt as u128) {
                    // not demanded by the property ("accepted only if"), but a liveness signal worth counting
                    r.probe("rejected_although_work_sufficient");
                }
                let margin = if !gated { 2 } else if total_work * (dt as u128) >= need_times_dt { 1 } else { 0 };
                let mut d = Digest::new();
                d.u64(dt_pm / 100).u64(margin);
                let mut shapes: Vec<&str> = plan.txs.iter().map(|t| t.path.as_str()).collect();
                shapes.sort();
                for s in shapes {
                    d.str(s);
                }
                r.nontrivial.push(d.get());
            }
            // monotone in the offset
            for i in 0..accepted.len() {
                for j in 0..accepted.len() {
                    if accepted[i].0 < accepted[j].0 && accepted[i].1 && !accepted[j].1 {
                        r.violate(
                            "C08|requirement-increases-with-time",
                            format!("same transactions: accepted at offset {} ms but rejected at {} ms", accepted[i].0, accepted[j].0),
                        );
                    }
                }
            }
        } else {
            // payout family
            let mut n = Node::new(&w.cfg, &w.keys[1].clone());
            let _ = n.add_block_bytes(&w.recs[0].bytes.clone());
            let mut cur = 0usize;
            let mut hist = Digest::new();
            for (step, (ntx, fee, hops, gt)) in plan.blocks.iter().enumerate() {
                let ledger = w.ledger_at(cur);
                let prec = w.recs[cur].clone();
                let ts = prec.ts + 2 * HB + 200;
                let mut txs = vec![];
                let mut used: Vec<UtxoKey> = vec![];
                for k in 0..*ntx {
                    let user = 1 + rng.usize_below(w.params.n_users);
                    let mine: Vec<SlipRef> = ledger.unspent_of(&w.keys[user].pk).into_iter().filter(|s| !used.contains(&s.key())).collect();
                    if mine.is_empty() {
                        continue;
                    }
                    let inp = mine[rng.usize_below(mine.len())].clone();
                    used.push(inp.key());
                    let f = (*fee).min(inp.amount / 2);
                    let tag = w.next_ts_tag();
                    let mut tx = make_tx(&w.keys[user].clone(), &[inp.clone()], &[(w.keys[user].pk, inp.amount - f)], ts + tag, &tag.to_le_bytes());
                    let kind = match (*hops + k) % 4 {
                        0 => "none",
                        1 => "valid-1",
                        2 => "valid-2",
                        _ => "valid-3",
                    };
                    add_path(&w, &mut tx, user, kind);
                    txs.push(tx);
                }
                if txs.is_empty() {
                    let tag = w.next_ts_tag();
                    txs.push(make_tx(&w.keys[1].clone(), &[], &[(w.keys[1].pk, 0)], ts + tag, &tag.to_le_bytes()));
                }
                let need_gt = !n.bc.is_golden_ticket_count_valid(prec.hash, *gt, false, false);
                // a rival block whose ticket does not solve the parent's lottery
                if let Some((at, kind)) = plan.bad_ticket {
                    let parent: Block = w.block(cur);
                    if at == step && kind < 4 && parent.difficulty > 0 && parent.difficulty <= 18 {
                        let thief = w.params.n_users + 1;
                        let aim: [u8; 32] = match kind {
                            0 => parent.previous_block_hash,
                            1 => w.recs[0].hash,
                            2 => saito_core::core::util::crypto::hash(&plan.seed.to_le_bytes()),
                            _ => parent.hash,
                        };
                        // (random, key) that solve `aim` at the parent's difficulty but not the parent's hash; for
                        // kind 3: that do not solve the parent's hash
                        let mut salt = 0x7100 + step as u64;
                        let ticket = loop {
                            salt += 1;
                            let g = if kind == 3 {
                                let mut buf = b"unsolved".to_vec();
                                buf.extend_from_slice(&salt.to_le_bytes());
                                GoldenTicket::create(aim, saito_core::core::util::crypto::hash(&buf), w.keys[thief].pk)
                            } else {
                                mine_gt(aim, parent.difficulty, &w.keys[thief], salt)
                            };
                            let raw = g.serialize_for_net();
                            let mut random = [0u8; 32];
                            random.copy_from_slice(&raw[32..64]);
                            let at_parent = GoldenTicket::create(parent.hash, random, w.keys[thief].pk);
                            if !at_parent.validate(parent.difficulty) {
                                break g;
                            }
                        };
                        let spec = BlockSpec { parent: prec.hash, ts, txs: txs.clone(), gt: true, creator: 0 };
                        if let Ok(Ok(b)) = crate::util::guarded(|| build_block_with_ticket(&w.builder, &w.keys, spec, Some((ticket, thief)))) {
                            r.fault("block_with_unearned_golden_ticket", 1);
                            let bytes = b.serialize_for_net(saito_core::core::consensus::block::BlockType::Full);
                            let tip0 = n.tip();
                            let oc = crate::util::guarded(|| n.add_block_bytes(&bytes).as_ref().map(outcome_of));
                            match oc {
                                Err(p) => {
                                    r.violate(format!("C08|panic|{}", p.site()), format!("{} ({}:{})", p.msg, p.file, p.line));
                                    break;
                                }
                                Ok(oc) => {
                                    trace.str(&format!("rival {:?}", oc));
                                    if matches!(oc, Some(AddOutcome::Added { .. })) || n.tip() != tip0 {
                                        let names = ["solved-against-grandparent", "solved-against-genesis", "solved-against-made-up-hash", "below-difficulty"];
                                        r.violate(
                                            format!("C08|payout|ticket-does-not-solve-parent|{}", names[kind as usize & 3]),
                                            format!(
                                                "block {} (parent difficulty {}) carries a golden ticket that does not solve the parent's lottery ({}) and was accepted ({:?}); its payout goes to the ticket's key",
                                                parent.id + 1,
                                                parent.difficulty,
                                                names[kind as usize & 3],
                                                oc
                                            ),
                                        );
                                        break;
                                    }
                                    r.probe("unearned_ticket_refused");
                                }
                            }
                        }
                    }
                }
                let spec = BlockSpec { parent: prec.hash, ts, txs, gt: *gt || need_gt, creator: 0 };
                // kind 4: the honest block's ticket was solved by user 2 and is carried by a golden-ticket
                // transaction that another key built and signed: the payout is the solver's
                let relayed = match plan.bad_ticket {
                    Some((at, 4)) if at == step && spec.gt => {
                        let parent: Block = w.block(cur);
                        if parent.difficulty <= 18 {
                            r.fault("golden_ticket_wrapped_by_another_key", 1);
                            Some((mine_gt(parent.hash, parent.difficulty, &w.keys[2], 0x4400 + step as u64), w.params.n_users + 1))
                        } else {
                            None
                        }
                    }
                    _ => None,
                };
                let b = match crate::util::guarded(|| build_block_with_ticket(&w.builder, &w.keys, spec, relayed)) {
                    Ok(Ok(b)) => b,
                    _ => break,
                };
                let idx = w.register(b, true, "payout");
                let oc = n.add_block_bytes(&w.recs[idx].bytes.clone()).as_ref().map(outcome_of);
                trace.str(&format!("{:?}", oc));
                r.steps += 1;
                if oc != Some(AddOutcome::Added { longest: true }) {
                    r.probe("honest_block_refused");
                    break;
                }
                hist.bytes(&w.recs[idx].hash);
                // oracle on the accepted block
                let blk: Block = w.block(idx);
                if let Some(ft) = blk.transactions.iter().find(|t| t.transaction_type == TransactionType::Fee) {
                    let gt_tx = blk.transactions.iter().find(|t| t.transaction_type == TransactionType::GoldenTicket);
                    let miner = gt_tx.map(|t| GoldenTicket::deserialize_from_net(&t.data)).map(|g| {
                        // the ticket's public key: bytes 64..97 of the payload
                        let mut pk = [0u8; 33];
                        pk.copy_from_slice(&g.serialize_for_net()[64..97]);
                        pk
                    });
                    let prev = w.block(cur);
                    let mut paid: Vec<Block> = vec![prev.clone()];
                    let prev_has_gt = prev.transactions.iter().any(|t| t.transaction_type == TransactionType::GoldenTicket);
                    if !prev_has_gt && prev.previous_block_hash != [0; 32] {
                        if let Some(pp) = w.by_hash.get(&prev.previous_block_hash) {
                            paid.push(w.block(*pp));
                        }
                    }
                    let mut eligible: Vec<[u8; 33]> = vec![];
                    if let Some(m) = miner {
                        eligible.push(m);
                    }
                    let mut collected: u128 = 0;
                    for pb in &paid {
                        for t in &pb.transactions {
                            if matches!(t.transaction_type, TransactionType::Normal | TransactionType::GoldenTicket) {
                                let tin: u128 = t.from.iter().map(|s| s.amount as u128).sum();
                                let tout: u128 = t.to.iter().map(|s| s.amount as u128).sum();
                                collected += tin.saturating_sub(tout);
                                if t.path.is_empty() {
                                    if let Some(f) = t.from.first() {
                                        eligible.push(f.public_key);
                                    }
                                } else {
                                    for h in &t.path {
                                        eligible.push(h.to);
                                    }
                                }
                            }
                        }
                    }
                    let mut paid_out: u128 = 0;
                    for o in &ft.to {
                        paid_out += o.amount as u128;
                        if o.amount > 0 && !eligible.contains(&o.public_key) {
                            r.violate(
                                "C08|payout|ineligible-recipient",
                                format!("block {}: fee transaction pays {} to a key that is neither the ticket solver nor on a routing path of the blocks being paid", blk.id, o.amount),
                            );
                        }
                    }
                    if paid_out > collected {
                        r.violate(
                            "C08|payout|exceeds-collected-fees",
                            format!("block {}: fee transaction pays out {} but the {} block(s) being paid collected {}", blk.id, paid_out, paid.len(), collected),
                        );
                    }
                    if paid_out > 0 {
                        r.probe("payout_checked");
                        r.nontrivial.push(hist.get());
                    }
                    if !r.violations.is_empty() {
                        break;
                    }
                }
                cur = idx;
            }
        }
        r.state_hash = trace.get();
        r.trace_hash = trace.get();
        r
    }
    fn shrink(&self, plan: &Value) -> Vec<Value> {
        let p: Plan = match serde_json::from_value(plan.clone()) {
            Ok(p) => p,
            Err(_) => return vec![],
        };
        let mut out = vec![];
        for i in 0..p.txs.len() {
            if p.txs.len() > 1 {
                let mut q = p.clone();
                q.txs.remove(i);
                out.push(q);
            }
        }
        if p.blocks.len() > 2 {
            let mut q = p.clone();
            q.blocks.pop();
            out.push(q);
        }
        if p.prefix > 1 {
            let mut q = p.clone();
            q.prefix -= 1;
            out.push(q);
        }
        out.into_iter().map(|p| serde_json::to_value(p).unwrap()).collect()
    }
}
