//! C15 — a node that syncs from a peer converges to the peer's chain.
//!
//! Two real full nodes. The peer holds chain Y, the syncer chain X (empty, shorter, or forked off a
//! shared prefix). Real handshake, BlockchainRequest, header-hash stream, block fetches from the
//! peer's disk, verification and consensus, under seeded message/fetch scheduling, duplicates,
//! fetch failures and a disconnect in the middle.

use saito_core::core::msg::message::Message;
use serde::{Deserialize, Serialize};
use serde_json::Value;

use crate::framework::*;
use crate::l2::*;
use crate::rng::{mix, Rng};
use crate::util::Digest;
use crate::world::*;

pub struct C15;

#[derive(Clone, Debug, Serialize, Deserialize)]
pub struct Plan {
    pub seed: u64,
    pub prefix: usize,
    pub x_suffix: usize,
    pub y_suffix: usize,
    pub batch: usize,
    pub dup_pm: u64,
    pub fetch_fail_pm: u64,
    pub in_order_fetch: bool,
    pub disconnect_at: Option<u64>,
    /// the syncer runs with blockchain.initial_loading_completed = true (an embedding application's
    /// switch; the shipped binaries leave it false): blocks whose parent is unknown are then parked
    /// and retried instead of taking the orphan branch, so every fetch completion order must converge
    #[serde(default)]
    pub loading_completed: bool,
    /// > 0: the long-chain family: the peer holds a producer chain with this small genesis period that is
    /// longer than its block ring (2 x gp) by `long_extra` blocks, so that it has purged its oldest blocks;
    /// the syncer is empty and joins at the oldest block the peer still serves
    #[serde(default)]
    pub long_gp: u64,
    #[serde(default)]
    pub long_extra: u64,
    /// the syncer's own fork block at a fork-id checkpoint height (a multiple of 10) is re-created until its hash
    /// shares the first byte, and only the first byte, with the peer's block of that height: the 2-byte slots of
    /// the fork id must be compared whole
    #[serde(default)]
    pub near_collision: bool,
}

fn gen(seed: u64, tier: Tier) -> Plan {
    let mut rng = Rng::new(seed);
    let big = tier == Tier::Thorough;
    let prefix = match rng.below(4) {
        0 => 0,
        1 => rng.range(1, 9) as usize,
        2 => rng.range(10, if big { 120 } else { 35 }) as usize,
        _ => rng.range(0, if big { 60 } else { 25 }) as usize,
    };
    let x_suffix = if rng.chance(1, 2) { 0 } else { rng.range(1, if big { 30 } else { 8 }) as usize };
    let y_suffix = x_suffix + rng.range(1, if big { 40 } else { 12 }) as usize;
    Plan {
        seed,
        prefix,
        x_suffix,
        y_suffix,
        batch: *rng.pick(&[1usize, 2, 3, 10]),
        dup_pm: if rng.chance(1, 3) { 50 } else { 0 },
        fetch_fail_pm: if rng.chance(1, 3) { 150 } else { 0 },
        in_order_fetch: rng.chance(1, 2),
        disconnect_at: if rng.chance(1, 5) { Some(rng.range(5, 60)) } else { None },
        loading_completed: rng.chance(1, 3),
        long_gp: if rng.chance(1, 8) { rng.range(3, 5) } else { 0 },
        long_extra: rng.range(1, 16),
        near_collision: rng.chance(1, 8),
    }
}

impl Scenario for C15 {
    fn id(&self) -> &'static str {
        "C15"
    }
    fn meta(&self) -> Meta {
        Meta {
            level: "exploration",
            rule: "run = two real full nodes (routing, verification, consensus processors; SimNet; fetch server reading the peer's simulated disk). Peer holds prefix+Y, syncer prefix+X with |Y| > |X| (prefix 0..35/120 so that 0, one or several fork-id checkpoints are populated; X empty, or 1..8/30 blocks; in an eighth of the runs the syncer's fork block at a fork-id checkpoint height is re-created until its hash shares exactly the first byte with the peer's block there). The syncer dials its static peer; real handshake; BlockchainRequest; header-hash stream; fetch batch size in {1,2,3,10}. Seeded scheduling of every pending message / channel item / fetch completion; faults: duplicated messages (5%), failed fetches (15%, retried by the timer path), one forced disconnect + reconnect; fetch completions either FIFO or in any order; in a third of the runs the syncer is configured with initial_loading_completed = true (park-and-retry of blocks whose parent is unknown instead of the orphan branch), where every completion order must converge. An eighth of the runs is the long-chain family: the peer's producer chain (genesis period 3..5) is 1..16 blocks longer than its block ring, it has purged its oldest blocks, and an empty syncer must join at the oldest block still served and reach the tip; with initial_loading_completed = true the syncer instead holds the chain up to genesis period + 2 blocks below the peer's tip and its fetches complete in any order (blocks more than a genesis period ahead of its tip take the whole-chain request path). Oracle: the set of header hashes the peer streams covers every block of Y after the true fork point; after faults stop, within 80 rounds of (run to quiescence, advance 2.1 s, tick routing timers) the syncer's tip equals the peer's tip; no processor panics. distinct_nontrivial = distinct (prefix, |X|, |Y|, fault set, schedule digest) that reached quiescence.",
            real: &["RoutingThread", "VerificationThread", "ConsensusThread", "Network/Peer handshake", "BlockchainSyncState", "Blockchain::generate_fork_id/generate_last_shared_ancestor/add_block", "Message codecs", "Storage"],
            stubs: &["SimNet (ordered per-connection queues)", "fetch server over the peer's SimDisk", "SimClock", "event-granularity scheduler instead of tokio (handlers run to completion)", "MiningThread idle"],
            assumptions: &["16-bit fork-id prefix collisions (2^-16 per checkpoint) are ignored", "out-of-order fetch completion that delivers a child before its parent is the orphan class (known finding of C03/C05) and is reported under its own signature"],
        }
    }
    fn budget(&self, tier: Tier) -> Budget {
        match tier {
            Tier::Quick => Budget { max_runs: 6_000, wall_s: 45 },
            Tier::Thorough => Budget { max_runs: 300_000, wall_s: 480 },
        }
    }
    fn generate(&self, seed: u64, index: u64, tier: Tier) -> Value {
        serde_json::to_value(gen(derive_run_seed(seed, "C15", index), tier)).unwrap()
    }
    fn execute(&self, plan: &Value) -> RunResult {
        let plan: Plan = serde_json::from_value(plan.clone()).expect("plan");
        if plan.long_gp > 0 {
            return long_chain_family(&plan);
        }
        let mut r = RunResult::default();
        let mut w = World::new(plan.seed, Params::default());
        let mut rng = Rng::new(mix(plan.seed, 15));
        let built = crate::util::guarded(|| -> Result<(Vec<usize>, Vec<usize>, Vec<usize>), String> {
            let mut cur = 0usize;
            let mut prefix = vec![0usize];
            for _ in 0..plan.prefix {
                cur = w.honest_child(cur, &mut rng, 1, (w.recs[cur].id + 1) % 2 == 0, 2300, "prefix")?;
                prefix.push(cur);
            }
            let fork = cur;
            let mut y = vec![];
            let mut c = fork;
            for _ in 0..plan.y_suffix {
                c = w.honest_child(c, &mut rng, 1, (w.recs[c].id + 1) % 2 == 0, 2200, "y")?;
                y.push(c);
            }
            let mut x = vec![];
            let mut c = fork;
            for k in 0..plan.x_suffix {
                let id = w.recs[c].id + 1;
                let mut next = w.honest_child(c, &mut rng, 1, id % 2 == 0, 2400, "x")?;
                if plan.near_collision && id % 10 == 0 && k < y.len() {
                    let want = w.recs[y[k]].hash;
                    for t in 0..1500u64 {
                        let h = w.recs[next].hash;
                        if h[0] == want[0] && h[1] != want[1] {
                            break;
                        }
                        next = w.honest_child(c, &mut rng, 1, id % 2 == 0, 2401 + t, "x-ground")?;
                    }
                }
                c = next;
                x.push(c);
            }
            Ok((prefix, x, y))
        });
        let (prefix, x, y) = match built {
            Ok(Ok(v)) => v,
            _ => {
                r.discarded = true;
                return r;
            }
        };
        if plan.near_collision {
            for (k, xi) in x.iter().enumerate() {
                if w.recs[*xi].id % 10 == 0 && k < y.len() && w.recs[*xi].hash[0] == w.recs[y[k]].hash[0] && w.recs[*xi].hash[1] != w.recs[y[k]].hash[1] {
                    r.fault("fork_id_slot_shares_only_its_first_byte", 1);
                }
            }
        }
        let start = w.recs.iter().map(|b| b.ts).max().unwrap() + 10_000;
        let mut sim = Sim::new(mix(plan.seed, 16), start);
        sim.log_deliveries = true;
        let mut opts = NodeOpts::default();
        opts.batch_size = plan.batch;
        let peer_cfg = w.cfg.clone();
        let mut sync_cfg = w.cfg.clone();
        sync_cfg.peers = vec![static_peer("node0")];
        sync_cfg.blockchain.initial_loading_completed = plan.loading_completed;
        if plan.loading_completed {
            r.probe("syncer_with_loading_completed");
        }
        let p = sim.add_node(&w.keys[0].clone(), &peer_cfg, &opts);
        let s = sim.add_node(&w.keys[2].clone(), &sync_cfg, &opts);
        let bytes = |v: &Vec<usize>| -> Vec<Vec<u8>> { v.iter().map(|i| w.recs[*i].bytes.clone()).collect() };
        let mut pchain = bytes(&prefix);
        pchain.extend(bytes(&y));
        let mut schain = if plan.prefix == 0 && plan.x_suffix == 0 && rng.chance(1, 2) { vec![] } else { bytes(&prefix) };
        schain.extend(bytes(&x));
        if !sim.preload(p, &pchain) || !sim.preload(s, &schain) {
            r.discarded = true;
            r.probe("preload_failed");
            return r;
        }
        sim.init_node(p, false);
        sim.init_node(s, false);
        let want = sim.nodes[p].tip();
        if want.1 != w.recs[*y.last().unwrap()].hash {
            r.discarded = true;
            r.probe("peer_chain_not_adopted");
            return r;
        }
        sim.faults.dup_pm = plan.dup_pm;
        sim.faults.fetch_fail_pm = plan.fetch_fail_pm;
        let mut orphan_risk = false;
        let mut completed: Vec<(usize, [u8; 32])> = vec![];
        let mut converged = false;
        let mut disconnected = false;
        let mut rounds = 0;
        let max_rounds = 80;
        let mut total_steps: u64 = 0;
        'outer: while rounds < max_rounds {
            rounds += 1;
            // timers
            sim.advance(2100);
            sim.tick(s, P_ROUTING);
            sim.tick(p, P_ROUTING);
            sim.resolve_connects(|n, _| if n == s { Some(p) } else { None });
            let mut k = 0;
            loop {
                let acts = sim.enabled();
                if acts.is_empty() {
                    break;
                }
                // fetch completion order policy
                let fetch_acts: Vec<&Action> = acts.iter().filter(|a| matches!(a, Action::FetchDone(_))).collect();
                let mut a = acts[sim.rng.usize_below(acts.len())].clone();
                if let Action::FetchDone(i) = a {
                    let i = if plan.in_order_fetch && !fetch_acts.is_empty() { 0 } else { i };
                    // would this completion hand the syncer a child before its parent?
                    let f = sim.fetches[i].clone();
                    if let Some(idx) = w.by_hash.get(&f.hash) {
                        let parent = w.recs[*idx].parent;
                        let (known_in_chain, chain_empty) = {
                            let bc = crate::util::block_on(sim.nodes[f.node].blockchain_lock.read());
                            (bc.blocks.contains_key(&parent), bc.blocks.is_empty())
                        };
                        let known = known_in_chain || completed.contains(&(f.node, parent));
                        let fails = sim.faults.fetch_fail_pm > 0 && sim.rng.chance(sim.faults.fetch_fail_pm, 1000);
                        if fails {
                            a = Action::FetchFail(i);
                        } else {
                            // park-and-retry only exists once the node has a chain: the very first block an
                            // empty node receives is taken as its starting point whatever its height
                            if !known && !(plan.loading_completed && f.node == s && !chain_empty) {
                                orphan_risk = true;
                            }
                            completed.push((f.node, f.hash));
                            a = Action::FetchDone(i);
                        }
                    } else {
                        a = Action::FetchDone(i);
                    }
                }
                sim.apply(a);
                k += 1;
                total_steps += 1;
                if let Some(at) = plan.disconnect_at {
                    if !disconnected && total_steps == at {
                        if let Some(c) = sim.conns.iter().position(|c| c.open) {
                            sim.close_conn(c);
                            *sim.fired.entry("forced_disconnect".into()).or_insert(0) += 1;
                        }
                        disconnected = true;
                    }
                }
                if k > 200_000 {
                    if std::env::var("VERIF_DEBUG").is_ok() {
                        eprintln!("livelock? fetches={} conns={:?} net_in={:?} acts={:?}", sim.fetches.len(), sim.conns.iter().map(|c| (c.open, c.a_to_b.len(), c.b_to_a.len())).collect::<Vec<_>>(), sim.nodes.iter().map(|n| n.net_in.len()).collect::<Vec<_>>(), sim.enabled().iter().take(5).collect::<Vec<_>>());
                    }
                    r.probe("step_cap_hit");
                    break 'outer;
                }
            }
            if !sim.panics.is_empty() {
                break;
            }
            // faults stop after round 40
            if rounds == 40 {
                sim.faults = NetFaults::default();
            }
            if sim.nodes[s].tip() == want && sim.quiet() {
                converged = true;
                break;
            }
        }
        for (k, v) in sim.fired.iter() {
            r.fault(k, *v);
        }
        if orphan_risk {
            r.fault("child_fetched_before_parent", 1);
        }
        r.steps = sim.steps;
        r.sim_time_ms = sim.now() - start;
        r.schedule_hash = sim.schedule_digest.get();
        // announced hashes from the peer
        let mut announced: Vec<[u8; 32]> = vec![];
        for (c, a_to_b, m) in &sim.delivered_log {
            let _ = (c, a_to_b);
            if let Ok(Message::BlockHeaderHash(h, _)) = Message::deserialize(m.clone()) {
                announced.push(h);
            }
        }
        let missing: Vec<u64> = y.iter().filter(|i| !announced.contains(&w.recs[**i].hash)).map(|i| w.recs[*i].id).collect();
        if let Some((n, what, p)) = sim.panics.first() {
            if orphan_risk {
                r.violate(
                    "C15|child-fetched-before-parent|panic",
                    format!("fetch completions delivered a block before its parent; then node{} {} panicked: {} ({}:{})", n, what, p.msg, p.file, p.line),
                );
            } else {
                r.violate(
                    format!("C15|panic|{}|{}", what, p.site()),
                    format!("node{} {} panicked: {} ({}:{})", n, what, p.msg, p.file, p.line),
                );
            }
        } else if !converged {
            let (sid, _) = sim.nodes[s].tip();
            if !missing.is_empty() && sim.nodes[p].tip() == want {
                // (the peer itself is intact: its own chain was not disturbed by blocks it fetched from the
                // syncer, which is the orphan class again)
                // judged before the orphan classification: a block that was never announced cannot have
                // arrived "before its parent" by the schedule's doing - the peer skipped it
                r.violate(
                    "C15|needed-block-never-announced",
                    format!("the peer never announced its blocks with ids {:?} (true fork point id {}); syncer at {}, peer at {}", missing, w.recs[*prefix.last().unwrap()].id, sid, want.0),
                );
            } else if orphan_risk {
                r.violate(
                    "C15|child-fetched-before-parent|not-converged",
                    format!("fetch completions delivered a block before its parent; the syncer ends at id {} while the peer is at {}", sid, want.0),
                );
            } else if !missing.is_empty() {
                r.violate(
                    "C15|needed-block-never-announced",
                    format!("the peer never announced its blocks with ids {:?} (true fork point id {}); syncer at {}, peer at {}", missing, w.recs[*prefix.last().unwrap()].id, sid, want.0),
                );
            } else {
                r.violate(
                    "C15|not-converged",
                    format!("after {} rounds the syncer is at id {} while the peer is at {} (prefix {}, |X| {}, |Y| {})", rounds, sid, want.0, plan.prefix, plan.x_suffix, plan.y_suffix),
                );
            }
        } else {
            r.probe("converged");
            if !missing.is_empty() {
                r.probe("needed_block_never_announced_but_converged");
            }
            let mut d = Digest::new();
            d.u64(plan.prefix as u64).u64(plan.x_suffix as u64).u64(plan.y_suffix as u64).u64(plan.dup_pm).u64(plan.fetch_fail_pm).u64(plan.in_order_fetch as u64).u64(plan.loading_completed as u64).u64(sim.schedule_digest.get());
            r.nontrivial.push(d.get());
        }
        let mut t = Digest::new();
        t.u64(sim.schedule_digest.get()).bytes(&sim.nodes[s].tip().1).u64(converged as u64);
        r.state_hash = t.get();
        r.trace_hash = t.get();
        r
    }
    fn shrink(&self, plan: &Value) -> Vec<Value> {
        let p: Plan = match serde_json::from_value(plan.clone()) {
            Ok(p) => p,
            Err(_) => return vec![],
        };
        let mut out = vec![];
        if p.disconnect_at.is_some() {
            let mut q = p.clone();
            q.disconnect_at = None;
            out.push(q);
        }
        if p.dup_pm > 0 {
            let mut q = p.clone();
            q.dup_pm = 0;
            out.push(q);
        }
        if p.fetch_fail_pm > 0 {
            let mut q = p.clone();
            q.fetch_fail_pm = 0;
            out.push(q);
        }
        if !p.in_order_fetch {
            let mut q = p.clone();
            q.in_order_fetch = true;
            out.push(q);
        }
        if p.prefix > 0 {
            let mut q = p.clone();
            q.prefix /= 2;
            out.push(q);
            let mut q = p.clone();
            q.prefix -= 1;
            out.push(q);
        }
        if p.x_suffix > 0 {
            let mut q = p.clone();
            q.x_suffix -= 1;
            out.push(q);
        }
        if p.y_suffix > p.x_suffix + 1 {
            let mut q = p.clone();
            q.y_suffix -= 1;
            out.push(q);
        }
        out.into_iter().map(|p| serde_json::to_value(p).unwrap()).collect()
    }
}

/// see Plan::long_gp
fn long_chain_family(plan: &Plan) -> RunResult {
    let mut r = RunResult::default();
    let gp = plan.long_gp;
    let params = Params { genesis_period: gp, heartbeat: 1000, n_users: 3, slips_per_user: 4, base_amount: 1_000_000 };
    let mut rng = Rng::new(mix(plan.seed, 0x15c0));
    let mut c = match crate::util::guarded(|| Chain::new(plan.seed, params.clone(), 8)) {
        Ok(Ok(c)) => c,
        _ => {
            r.discarded = true;
            return r;
        }
    };
    let n_blocks = 2 * gp + plan.long_extra;
    while c.tip_rec().id < n_blocks {
        let mut txs = vec![];
        let user = 1 + rng.usize_below(3);
        if let Some((t, _)) = c.payment(user, 1 + rng.usize_below(3), rng.usize_below(64), 0, 0, &[]) {
            txs.push(t);
        } else {
            let tag = c.tag();
            let ts = c.tip_rec().ts + tag;
            txs.push(make_tx(&c.keys[1].clone(), &[], &[(c.keys[1].pk, 0)], ts, &tag.to_le_bytes()));
        }
        let tip_hash = c.tip_rec().hash;
        let want = (c.tip_rec().id + 1) % 2 == 0;
        let gt = want || !c.node.bc.is_golden_ticket_count_valid(tip_hash, want, false, false);
        match crate::util::guarded(|| c.extend(txs, gt, 2300)) {
            Ok(Ok(_)) => {}
            _ => {
                r.discarded = true;
                r.probe("long_chain_producer_refused");
                return r;
            }
        }
    }
    let start = c.tip_rec().ts + 10_000;
    let mut sim = Sim::new(mix(plan.seed, 0x15c1), start);
    let mut opts = NodeOpts::default();
    opts.batch_size = plan.batch;
    let peer_cfg = c.cfg.clone();
    let mut sync_cfg = c.cfg.clone();
    sync_cfg.peers = vec![static_peer("node0")];
    // with initial_loading_completed = true the syncer is not empty: it holds the chain up to genesis period + 2
    // blocks below the peer's tip (still inside what the peer serves), parks blocks whose parent it lacks and
    // asks again; fetches then complete in any order, so blocks arrive that are further ahead of its tip than
    // one genesis period ("too distant": the whole-chain request path)
    let behind = (gp + 2).min(n_blocks - 1);
    let held = if plan.loading_completed { (n_blocks - behind) as usize } else { 0 };
    sync_cfg.blockchain.initial_loading_completed = plan.loading_completed;
    let p = sim.add_node(&c.keys[0].clone(), &peer_cfg, &opts);
    let s = sim.add_node(&c.keys[2].clone(), &sync_cfg, &opts);
    let pchain: Vec<Vec<u8>> = c.recs.iter().map(|b| b.bytes.clone()).collect();
    if !sim.preload(p, &pchain) {
        r.discarded = true;
        r.probe("preload_failed");
        return r;
    }
    if held > 0 {
        // (a node that old has purged as the peer has: give it the blocks the way it would have received them)
        if !sim.preload(s, &pchain[..held]) {
            r.discarded = true;
            r.probe("syncer_preload_failed");
            return r;
        }
        r.fault("syncer_more_than_a_genesis_period_behind_any_order_fetch", 1);
    }
    sim.init_node(p, false);
    sim.init_node(s, false);
    let want = sim.nodes[p].tip();
    if want.1 != c.tip_rec().hash {
        r.discarded = true;
        r.probe("peer_chain_not_adopted");
        return r;
    }
    r.fault("peer_chain_longer_than_its_block_ring", 1);
    let mut converged = false;
    let mut rounds = 0;
    while rounds < 60 {
        rounds += 1;
        sim.advance(2100);
        sim.tick(s, P_ROUTING);
        sim.tick(p, P_ROUTING);
        sim.resolve_connects(|n, _| if n == s { Some(p) } else { None });
        let mut k = 0;
        loop {
            // fetches complete in request order (a child before its parent is the orphan class)
            let acts: Vec<Action> = sim.enabled().into_iter().filter(|a| held > 0 || !matches!(a, Action::FetchDone(i) | Action::FetchFail(i) if *i > 0)).filter(|a| !matches!(a, Action::FetchFail(_)) || held == 0).collect();
            if acts.is_empty() {
                break;
            }
            let a = acts[sim.rng.usize_below(acts.len())].clone();
            sim.apply(a);
            k += 1;
            if k > 100_000 {
                break;
            }
        }
        if !sim.panics.is_empty() {
            break;
        }
        if sim.nodes[s].tip() == want && sim.quiet() {
            converged = true;
            break;
        }
    }
    r.steps = sim.steps;
    r.sim_time_ms = sim.now() - start;
    r.schedule_hash = sim.schedule_digest.get();
    if let Some((n, what, pn)) = sim.panics.first() {
        r.violate(format!("C15|panic|{}|{}", what, pn.site()), format!("long-chain family: node{} {} panicked: {} ({}:{})", n, what, pn.msg.chars().take(140).collect::<String>(), pn.file, pn.line));
    } else if !converged {
        r.violate(
            "C15|not-converged|peer-chain-longer-than-ring",
            format!("long-chain family (genesis period {}, peer at id {}): after {} rounds the empty syncer is at id {}", gp, want.0, rounds, sim.nodes[s].tip().0),
        );
    } else {
        r.probe("converged_long_chain");
        let mut d = Digest::new();
        d.u64(gp).u64(plan.long_extra).u64(plan.batch as u64).u64(sim.schedule_digest.get());
        r.nontrivial.push(d.get());
    }
    let mut t = Digest::new();
    t.u64(sim.schedule_digest.get()).bytes(&sim.nodes[s].tip().1).u64(converged as u64);
    r.state_hash = t.get();
    r.trace_hash = t.get();
    r
}
