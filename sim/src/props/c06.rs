//! C06 — a block's identity binds its content and its creator.
//!
//! For an honest block at any position of a history: edits of its transaction list or header that
//! keep it decodable. The edited block goes to node A, the original to node B.

use saito_core::core::consensus::block::Block;
use saito_core::core::consensus::transaction::TransactionType;
use serde::{Deserialize, Serialize};
use serde_json::Value;

use crate::framework::*;
use crate::rng::{mix, Rng};
use crate::util::Digest;
use crate::world::*;

pub struct C06;

pub const EDITS: &[&str] = &[
    "swap-two-txs",
    "replace-tx-equal-fee",
    "add-zero-fee-tx",
    "remove-zero-fee-tx",
    "change-tx-payload",
    "resign-with-other-key",
    "change-creator",
    "change-timestamp",
    "change-treasury-field",
    "duplicate-last-tx",
    "insert-spv-stub",
    "insert-spv-stub",
    "remove-all-txs",
];

#[derive(Clone, Debug, Serialize, Deserialize)]
pub struct Plan {
    pub seed: u64,
    pub depth: usize,
    pub target: usize,
    pub edit: String,
    pub ntx: usize,
    /// state of the receiving nodes: "synced" (hold the chain from genesis up to the parent),
    /// "joined-mid-chain" (the parent is the first block they ever received: total supply not
    /// loaded, ledger checks off) or "fresh-genesis" (empty node, the edited block is block #1)
    #[serde(default)]
    pub receiver: String,
    /// leaf-limit family: the producer's own block additionally carries a placeholder transaction standing for
    /// so many transactions that the block's merkle tree has MAX_MERKLE_TREE_LEAVES + this many leaves (-1 or 0:
    /// the largest trees a node still builds); the edit is then applied to that block
    #[serde(default)]
    pub leaf_delta: Option<i64>,
    /// the receiving nodes run under the key of the block's stated creator (the producer's own second
    /// instance, or the producer after it lost the block): a block attributed to oneself gets no discount
    #[serde(default)]
    pub receiver_is_creator: bool,
}

fn gen(seed: u64, tier: Tier) -> Plan {
    let mut rng = Rng::new(seed);
    let depth = rng.range(2, if tier == Tier::Quick { 8 } else { 15 }) as usize;
    if rng.chance(1, 2500) {
        // the 2^20-leaf trees cost seconds each: few runs, shallow history
        let depth = rng.range(1, 3) as usize;
        return Plan {
            seed,
            depth,
            target: depth,
            edit: rng.pick(&["swap-two-txs", "change-tx-payload", "replace-tx-equal-fee", "remove-zero-fee-tx"]).to_string(),
            ntx: rng.range(2, 4) as usize,
            receiver: "synced".to_string(),
            leaf_delta: Some(if rng.chance(2, 3) { 0 } else { -1 }),
            receiver_is_creator: false,
        };
    }
    Plan {
        seed,
        depth,
        target: rng.range(1, depth as u64) as usize,
        edit: rng.pick(EDITS).to_string(),
        ntx: rng.range(2, 5) as usize,
        receiver: rng.pick(&["synced", "synced", "joined-mid-chain", "fresh-genesis"]).to_string(),
        leaf_delta: None,
        receiver_is_creator: rng.chance(1, 4),
    }
}

fn tx_digest(b: &Block) -> Vec<[u8; 64]> {
    b.transactions.iter().map(|t| t.signature).collect()
}

impl Scenario for C06 {
    fn id(&self) -> &'static str {
        "C06"
    }
    fn meta(&self) -> Meta {
        Meta {
            level: "exploration",
            rule: "run = honest history of 2..8/15 blocks (2-5 zero- and non-zero-fee payments each); the block at a seeded position is edited by one of 10 edits that keep it decodable: swap two transactions, replace a transaction by another valid one with the same fee, add / remove a zero-fee transaction, remove every transaction, duplicate the last transaction, insert a slip-less SPV-typed stub (standing for 0 or 1 transactions), change a transaction payload (all without touching the signed header, so the hash is unchanged), re-sign the header with another key, change creator / timestamp / treasury without re-signing. Edited block -> node A, original -> node B, then the rest of the history to both. A quarter of the runs let the receiving nodes run under the key of the block's stated creator. The receiving nodes are synced from genesis, or joined mid-chain (the parent is the first block they ever saw, so the total supply is not loaded and ledger-dependent checks are off), or fresh (the edited block is block #1 itself). Restart stage (synced receivers, hash-preserving edits): the edited block reaches a node as a sibling of its tip, is stored and written to disk unvalidated, the node restarts from its simulated disk (real start-up) and must not end up with the edited transaction list on its longest chain. Oracles: (1) a block whose hash equals the original's but whose ordered transaction list differs is never accepted (one run in 2500 is the leaf-limit family: the producer's own block also carries a placeholder standing for so many transactions that its merkle tree has exactly MAX_MERKLE_TREE_LEAVES or one leaf fewer - the largest trees a node builds - and a list edit that keeps the leaf total is applied to that block); (2) whenever A and B report the same tip hash their spendable sets are identical; (3) a header edit either changes the hash or the block is rejected. distinct_nontrivial = distinct (edit, block position, depth) where the edit applied and hashes were compared.",
            real: &["Block::deserialize_from_net/generate/generate_merkle_root/validate", "MerkleTree", "Blockchain::add_block"],
            stubs: &["SimIo", "SimConfig", "vendored ahash"],
            assumptions: &["genesis period >> depth"],
        }
    }
    fn budget(&self, tier: Tier) -> Budget {
        match tier {
            Tier::Quick => Budget { max_runs: 30_000, wall_s: 35 },
            Tier::Thorough => Budget { max_runs: 1_000_000, wall_s: 400 },
        }
    }
    fn generate(&self, seed: u64, index: u64, tier: Tier) -> Value {
        serde_json::to_value(gen(derive_run_seed(seed, "C06", index), tier)).unwrap()
    }
    fn execute(&self, plan: &Value) -> RunResult {
        let plan: Plan = serde_json::from_value(plan.clone()).expect("plan");
        let mut r = RunResult::default();
        let mut w = World::new(plan.seed, Params::default());
        let mut rng = Rng::new(mix(plan.seed, 6));
        let mut trace = Digest::new();
        let built = crate::util::guarded(|| -> Result<Vec<usize>, String> {
            let mut cur = 0usize;
            let mut v = vec![];
            for _ in 0..plan.depth {
                cur = w.honest_child(cur, &mut rng, plan.ntx, (w.recs[cur].id + 1) % 2 == 0, 2300, "h")?;
                v.push(cur);
            }
            Ok(v)
        });
        let chain = match built {
            Ok(Ok(v)) => v,
            _ => {
                r.discarded = true;
                return r;
            }
        };
        let fresh_genesis = plan.receiver == "fresh-genesis";
        let mid_chain = plan.receiver == "joined-mid-chain" && plan.target >= 2;
        let tidx = if fresh_genesis { 0 } else { chain[plan.target - 1] };
        let mut orig = w.block(tidx);
        let mut orig_bytes = w.recs[tidx].bytes.clone();
        if let Some(delta) = plan.leaf_delta {
            if fresh_genesis || mid_chain {
                r.discarded = true;
                return r;
            }
            let max = saito_core::core::consensus::merkle::MAX_MERKLE_TREE_LEAVES as i64;
            let mut t = saito_core::core::consensus::transaction::Transaction::default();
            t.transaction_type = TransactionType::SPV;
            t.txs_replacements = (max + delta - orig.transactions.len() as i64) as u32;
            t.timestamp = orig.timestamp;
            t.signature = [0x5a; 64];
            orig.transactions.push(t);
            let creator = w.keys[0].clone();
            reseal(&mut orig, &creator, true);
            orig_bytes = orig.serialize_for_net(saito_core::core::consensus::block::BlockType::Full);
            r.fault("producer_block_at_merkle_leaf_limit", 1);
        }
        let parent_idx = if fresh_genesis { 0 } else { *w.by_hash.get(&w.recs[tidx].parent).unwrap() };
        let pledger = if fresh_genesis { RefLedger::default() } else { w.ledger_at(parent_idx) };
        // build the edited block
        let mut e = orig.clone();
        let other = w.keys[w.params.n_users + 1].clone();
        let mut applied = true;
        let edit_kind = if fresh_genesis {
            // block #1 carries issuance transactions only: the list edits apply to those
            match plan.edit.as_str() {
                "swap-two-txs" | "replace-tx-equal-fee" => "genesis-swap",
                "remove-zero-fee-tx" | "add-zero-fee-tx" => "genesis-remove",
                "duplicate-last-tx" => "genesis-duplicate",
                "remove-all-txs" => "genesis-remove-all",
                other => other,
            }
        } else {
            plan.edit.as_str()
        };
        match edit_kind {
            "genesis-swap" => {
                if e.transactions.len() >= 2 && e.transactions[0].signature != e.transactions[1].signature {
                    e.transactions.swap(0, 1);
                } else {
                    applied = false;
                }
            }
            "genesis-remove" => {
                if e.transactions.len() >= 2 {
                    e.transactions.pop();
                } else {
                    applied = false;
                }
            }
            // block #1 is exempt from the "no transactions" rule: stripped of everything it must still fail
            // its header's transaction commitment
            "genesis-remove-all" => {
                if e.transactions.is_empty() {
                    applied = false;
                } else {
                    e.transactions.clear();
                }
            }
            "remove-all-txs" => {
                e.transactions.clear();
            }
            "genesis-duplicate" => match e.transactions.last().cloned() {
                Some(t) => e.transactions.push(t),
                None => applied = false,
            },
            "swap-two-txs" => {
                // two non-fee, non-GT transactions
                let idxs: Vec<usize> = e
                    .transactions
                    .iter()
                    .enumerate()
                    .filter(|(_, t)| t.transaction_type == TransactionType::Normal)
                    .map(|(i, _)| i)
                    .collect();
                if idxs.len() >= 2 {
                    e.transactions.swap(idxs[0], idxs[1]);
                } else {
                    applied = false;
                }
            }
            "replace-tx-equal-fee" | "add-zero-fee-tx" => {
                // a fresh valid zero-fee payment that does not touch the block's inputs
                let used: Vec<UtxoKey> = orig.transactions.iter().flat_map(|t| t.from.iter().map(|s| SlipRef::from_slip(s).key())).collect();
                let mut fresh = None;
                for k in 0..40 {
                    if let Some((tx, inp)) = w.payment(&pledger, 1 + (k % 3), 1 + ((k + 1) % 3), k, 0, orig.timestamp) {
                        if !used.contains(&inp.key()) {
                            fresh = Some(tx);
                            break;
                        }
                    }
                }
                match fresh {
                    None => applied = false,
                    Some(mut tx) => {
                        tx.generate(&orig.creator, 0, 0);
                        if plan.edit == "add-zero-fee-tx" {
                            // before the fee transaction, if any
                            let at = e.transactions.iter().position(|t| t.transaction_type == TransactionType::Fee).unwrap_or(e.transactions.len());
                            e.transactions.insert(at, tx);
                        } else {
                            match e.transactions.iter().position(|t| t.transaction_type == TransactionType::Normal && t.total_fees == 0) {
                                Some(i) => e.transactions[i] = tx,
                                None => applied = false,
                            }
                        }
                    }
                }
            }
            "remove-zero-fee-tx" => {
                let normals = e.transactions.iter().filter(|t| t.transaction_type == TransactionType::Normal).count();
                match e.transactions.iter().position(|t| t.transaction_type == TransactionType::Normal && t.total_fees == 0) {
                    Some(i) if normals >= 2 => {
                        e.transactions.remove(i);
                    }
                    _ => applied = false,
                }
            }
            "duplicate-last-tx" => {
                match e.transactions.iter().rposition(|t| t.transaction_type == TransactionType::Normal && t.from.iter().all(|s| s.amount == 0)) {
                    Some(i) => {
                        let t = e.transactions[i].clone();
                        e.transactions.insert(i, t);
                    }
                    None => applied = false,
                }
            }
            "insert-spv-stub" => {
                // a slip-less placeholder-typed transaction that claims to stand for zero transactions,
                // with an arbitrary payload: nobody signed it, it moves no value
                let mut t = saito_core::core::consensus::transaction::Transaction::default();
                t.transaction_type = TransactionType::SPV;
                t.txs_replacements = (rng.below(2)) as u32; // 0 or 1
                t.timestamp = orig.timestamp;
                t.data = vec![0x53, 0x50, 0x56, rng.below(256) as u8];
                t.signature = [rng.below(255) as u8 + 1; 64];
                let at = rng.usize_below(e.transactions.len() + 1);
                e.transactions.insert(at, t);
            }
            "change-tx-payload" => match e.transactions.iter().position(|t| t.transaction_type == TransactionType::Normal || fresh_genesis) {
                Some(i) => e.transactions[i].data.push(0x42),
                None => applied = false,
            },
            "resign-with-other-key" => {
                e.sign(&other.sk);
            }
            "change-creator" => {
                e.creator = other.pk;
            }
            "change-timestamp" => {
                e.timestamp += 1;
            }
            "change-treasury-field" => {
                e.treasury += 1;
            }
            _ => applied = false,
        }
        if !applied {
            r.discarded = true;
            r.probe("edit_not_applicable");
            return r;
        }
        // as it travels: bytes -> decode -> generate (merkle root stays as transmitted)
        let ebytes = e.serialize_for_net(saito_core::core::consensus::block::BlockType::Full);
        let mut edec = match Block::deserialize_from_net(&ebytes) {
            Ok(b) => b,
            Err(_) => {
                r.discarded = true;
                return r;
            }
        };
        let gen_ok = edec.generate().is_ok();
        let same_hash = gen_ok && edec.hash == orig.hash;
        let txs_differ = tx_digest(&edec) != tx_digest(&orig) || edec.transactions.iter().zip(orig.transactions.iter()).any(|(a, b)| a.data != b.data);
        let header_edit = matches!(plan.edit.as_str(), "resign-with-other-key" | "change-creator" | "change-timestamp" | "change-treasury-field");
        let rkey = if plan.receiver_is_creator { w.keys[0].clone() } else { w.keys[1].clone() };
        if plan.receiver_is_creator {
            r.probe("receiver_holds_creator_key");
        }
        let mut a = Node::new(&w.cfg, &rkey);
        let mut b = Node::new(&w.cfg, &rkey);
        for n in [&mut a, &mut b] {
            if fresh_genesis {
                // nothing: the edited / original block #1 is the first thing the node sees
            } else if mid_chain {
                // the parent is the first block this node ever receives (it joined here)
                let _ = n.add_block_bytes(&w.recs[parent_idx].bytes.clone());
            } else {
                let _ = n.add_block_bytes(&w.recs[0].bytes.clone());
                for i in &chain[..plan.target - 1] {
                    let _ = n.add_block_bytes(&w.recs[*i].bytes.clone());
                }
            }
        }
        r.probe(if fresh_genesis { "receiver_fresh_genesis" } else if mid_chain { "receiver_joined_mid_chain" } else { "receiver_synced" });
        let oa = a.add_block_bytes(&ebytes).as_ref().map(outcome_of);
        let ob = b.add_block_bytes(&orig_bytes).as_ref().map(outcome_of);
        trace.str(&format!("{:?}{:?}", oa, ob));
        r.steps = plan.depth as u64;
        let a_accepted = matches!(oa, Some(AddOutcome::Added { .. })) && a.bc.blocks.contains_key(&edec.hash);
        if ob != Some(AddOutcome::Added { longest: true }) {
            r.discarded = true;
            r.probe("original_refused");
            return r;
        }
        if same_hash && txs_differ && a_accepted {
            r.violate(
                format!("C06|accepted-under-same-hash|{}", plan.edit),
                format!("block id {} edited by '{}' keeps hash {} but carries a different ordered transaction list, and was accepted ({:?})", orig.id, plan.edit, crate::util::hex8(&orig.hash), oa),
            );
        }
        if header_edit && same_hash && a_accepted {
            r.violate(
                format!("C06|header-edit-accepted|{}", plan.edit),
                format!("header edit '{}' neither changed the hash nor got the block rejected", plan.edit),
            );
        }
        if header_edit && !same_hash && a_accepted {
            // a different hash is a different block; it must then stand on its own (valid signature by stated creator)
            r.violate(
                format!("C06|header-edit-accepted-under-new-hash|{}", plan.edit),
                format!("header edit '{}' changed the hash but the block was still accepted without a valid creator signature", plan.edit),
            );
        }
        // rest of the history to both; then same tip => same ledger
        if r.violations.is_empty() {
            if !a.bc.blocks.contains_key(&orig.hash) {
                // A rejected the edited block: it now receives the original (as any honest peer would
                // send it), otherwise everything after it would be an orphan delivery
                let oa2 = a.add_block_bytes(&orig_bytes).as_ref().map(outcome_of);
                trace.str(&format!("{:?}", oa2));
                if oa2 != Some(AddOutcome::Added { longest: true }) {
                    r.violate(
                        format!("C06|original-refused-after-edit|{}", plan.edit),
                        format!("after rejecting the edited block, node A refuses the original: {:?}", oa2),
                    );
                }
            }
            let rest: &[usize] = if plan.leaf_delta.is_some() {
                &[]
            } else if fresh_genesis {
                &chain[..]
            } else {
                &chain[plan.target..]
            };
            for i in rest {
                let _ = a.add_block_bytes(&w.recs[*i].bytes.clone());
                let _ = b.add_block_bytes(&w.recs[*i].bytes.clone());
                if a.tip().1 == b.tip().1 && a.utxo_keys() != b.utxo_keys() {
                    r.violate(
                        format!("C06|same-tip-different-ledger|{}", plan.edit),
                        format!("nodes A and B both report tip {} but their spendable sets differ", crate::util::hex8(&a.tip().1)),
                    );
                    break;
                }
            }
            if a.tip().1 == b.tip().1 && a.utxo_keys() != b.utxo_keys() {
                r.violate(format!("C06|same-tip-different-ledger|{}", plan.edit), "same tip hash, different spendable sets".to_string());
            }
        }
        // restart stage: the edited block reaches a node as a sibling of its tip (stored and written to disk
        // without validation, as any non-longest block is); the node is then restarted and rebuilds its chain
        // from its own block files, where the edited file sorts before the honest sibling. Blocks read back
        // from disk must be validated like any other.
        if plan.leaf_delta.is_some() {
            r.probe(if a_accepted { "leaf_limit_edit_accepted" } else { "leaf_limit_edit_refused" });
        }
        if r.violations.is_empty() && same_hash && txs_differ && !fresh_genesis && !mid_chain && plan.target >= 2 && plan.leaf_delta.is_none() {
            let disk = std::sync::Arc::new(std::sync::Mutex::new(crate::simio::DiskState::default()));
            let key = w.keys[1].clone();
            let mut rn = Node::with_disk(&w.cfg, &key, disk.clone());
            let _ = rn.add_block_bytes(&w.recs[0].bytes.clone());
            for i in &chain[..plan.target - 1] {
                let _ = rn.add_block_bytes(&w.recs[*i].bytes.clone());
            }
            let sib = crate::util::guarded(|| w.honest_child(parent_idx, &mut rng, 1, orig.has_golden_ticket, 2900, "sibling"));
            if let Ok(Ok(si)) = sib {
                let os = rn.add_block_bytes(&w.recs[si].bytes.clone()).as_ref().map(outcome_of);
                let oe = rn.add_block_bytes(&ebytes).as_ref().map(outcome_of);
                let stored = rn.bc.blocks.contains_key(&orig.hash);
                if os == Some(AddOutcome::Added { longest: true }) && stored {
                    trace.str(&format!("{:?}", oe));
                    drop(rn);
                    let start = w.recs.iter().map(|b| b.ts).max().unwrap() + 10_000;
                    let mut sim = crate::l2::Sim::new(mix(plan.seed, 66), start);
                    let opts = crate::l2::NodeOpts::default();
                    let node = crate::l2::FullNode::new(0, &key, &w.cfg, disk.clone(), sim.clock.clone(), &opts);
                    sim.nodes.push(node);
                    sim.init_node(0, false);
                    r.fault("restart_with_edited_sibling_on_disk", 1);
                    if let Some((_, what, p)) = sim.panics.first() {
                        r.violate(format!("C06|panic|restart|{}|{}", what, p.site()), format!("restart with the edited block on disk panicked: {} ({}:{})", p.msg.chars().take(140).collect::<String>(), p.file, p.line));
                    } else {
                        let bc = crate::util::block_on(sim.nodes[0].blockchain_lock.read());
                        if let Some(b) = bc.get_block(&orig.hash) {
                            let on_chain = b.in_longest_chain;
                            let differs = !b.transactions.is_empty() && (tx_digest(b) != tx_digest(&orig) || b.transactions.iter().zip(orig.transactions.iter()).any(|(x, y)| x.data != y.data));
                            if on_chain && differs {
                                r.violate(
                                    format!("C06|accepted-under-same-hash|after-restart|{}", plan.edit),
                                    format!("after a restart the node's longest chain holds block id {} under hash {} with a transaction list that differs from the signed one (edit '{}', read back from its own disk)", orig.id, crate::util::hex8(&orig.hash), plan.edit),
                                );
                            }
                        }
                        r.probe("restart_stage_ran");
                    }
                }
            }
        }
        let mut d = Digest::new();
        d.str(&plan.edit).u64(plan.target as u64).u64(plan.depth as u64).str(&plan.receiver);
        r.nontrivial.push(d.get());
        r.probe(if same_hash { "edit_kept_hash" } else { "edit_changed_hash" });
        trace.bytes(&a.tip().1).bytes(&b.tip().1);
        r.state_hash = trace.get();
        r.trace_hash = trace.get();
        r
    }
    fn shrink(&self, plan: &Value) -> Vec<Value> {
        let p: Plan = match serde_json::from_value(plan.clone()) {
            Ok(p) => p,
            Err(_) => return vec![],
        };
        let mut out = vec![];
        if p.depth > p.target {
            let mut q = p.clone();
            q.depth = p.target;
            out.push(q);
        }
        if p.target > 1 {
            let mut q = p.clone();
            q.target -= 1;
            q.depth = q.depth.max(q.target);
            out.push(q);
        }
        if p.ntx > 2 {
            let mut q = p.clone();
            q.ntx -= 1;
            out.push(q);
        }
        out.into_iter().map(|p| serde_json::to_value(p).unwrap()).collect()
    }
}
