//! C18 — a lite block is a faithful projection of its full block.
//!
//! A real full node holds a block with n transactions of which a chosen subset touches the light
//! client's key (all 2^n patterns for small n first, then random n <= 40). A real SPV node syncs
//! from it (ghost chain + /lite-block fetches through the simulated fetch route, which runs the
//! same core calls as the warp route). The projection is checked at the fetch seam before and
//! after the wire, and the client must end up holding the block under the advertised hash.

use saito_core::core::consensus::block::{Block, BlockType};
use saito_core::core::consensus::merkle::MerkleTree;
use saito_core::core::consensus::transaction::{Transaction, TransactionType};
use serde::{Deserialize, Serialize};
use serde_json::Value;

use crate::framework::*;
use crate::l2::*;
use crate::rng::{mix, Rng};
use crate::util::{block_on, Digest};
use crate::world::*;

pub struct C18;

#[derive(Clone, Debug, Serialize, Deserialize)]
pub struct Plan {
    pub seed: u64,
    pub n: usize,
    /// bit i set = transaction i pays to the light client's key
    pub pattern: Vec<bool>,
    pub gt: bool,
    pub extra_keys: usize,
    pub sync: bool,
    /// the key list also names user 1, whose transactions in this block are sweeps (everything goes to
    /// another user, nothing back to the sender): they touch the list through their inputs only
    #[serde(default)]
    pub sender_listed: bool,
}

/// indices 0..exhaustive enumerate (n, pattern) for n = 0..=N completely
fn exhaustive_count(nmax: usize) -> u64 {
    (0..=nmax).map(|n| 1u64 << n).sum()
}

fn gen(seed: u64, index: u64, tier: Tier) -> Plan {
    let nmax = if tier == Tier::Quick { 6 } else { 8 };
    let ex = exhaustive_count(nmax);
    let rs = derive_run_seed(seed, "C18", index);
    let mut rng = Rng::new(rs);
    if index < ex {
        let mut k = index;
        let mut n = 0usize;
        while k >= (1u64 << n) {
            k -= 1u64 << n;
            n += 1;
        }
        let pattern = (0..n).map(|i| (k >> i) & 1 == 1).collect();
        Plan { seed: rs, n, pattern, gt: n % 2 == 0, extra_keys: 0, sync: index % 7 == 0, sender_listed: index % 3 == 1 }
    } else {
        let n = rng.range(0, if tier == Tier::Quick { 24 } else { 40 }) as usize;
        let dens = rng.range(1, 9);
        let pattern = (0..n).map(|_| rng.chance(dens, 10)).collect();
        Plan { seed: rs, n, pattern, gt: rng.chance(1, 2), extra_keys: rng.below(3) as usize, sync: rng.chance(1, 5), sender_listed: rng.chance(1, 3) }
    }
}

fn touches(tx: &Transaction, keys: &[[u8; 33]]) -> bool {
    tx.from.iter().any(|s| keys.contains(&s.public_key)) || tx.to.iter().any(|s| keys.contains(&s.public_key))
}

impl Scenario for C18 {
    fn id(&self) -> &'static str {
        "C18"
    }
    fn meta(&self) -> Meta {
        Meta {
            level: "exploration",
            rule: "run = one block with n zero-fee payments placed in a chosen order, of which the pattern's positions pay the light client's key (plus optionally a golden ticket and fee transaction, 0-2 extra keys in the client's key list touching random positions, and in a third of the runs a listed key that only *sends*: its transactions are sweeps with no output back to it); the first runs enumerate every (n, pattern) for n = 0..6 (quick) / 0..8 (thorough), then random n <= 24/40 with touch density 10-90%. A real full node is preloaded with the chain. Projection oracle on what the fetch route serves (file -> deserialize -> generate -> generate_lite_block(key list) -> serialize): id, hash, creator, signature, previous hash, merkle root and every other header field equal the full block's; every transaction touching a listed key is present unmodified; after the wire (deserialize + generate) the hash is unchanged; the merkle root recomputed from the lite block's own transactions equals the header's, before and after the wire; the projection of the same block after its transactions were pruned from memory keeps the signed header bytes and the hash. In a fraction of the runs a real SPV node (spv mode, static peer) performs the real handshake, ghost-chain request and lite-block fetch and must end up storing the block under the advertised hash. distinct_nontrivial = distinct (n, pattern, key-list size) served as a lite block.",
            real: &["Block::generate_lite_block", "MerkleTree::generate", "Transaction::generate_hash_for_signature (SPV)", "Block::serialize_for_net/deserialize_from_net/generate", "RoutingThread ghost-chain request/processing", "VerificationThread::verify_block", "ConsensusThread (spv)"],
            stubs: &["fetch route re-implemented with the same core calls as saito-rust/src/network_controller.rs", "SimNet", "universe builder"],
            assumptions: &["the quantifier over all blocks/key lists is sampled beyond the enumerated prefix", "fees are zero so that transaction order does not influence consensus values"],
        }
    }
    fn budget(&self, tier: Tier) -> Budget {
        match tier {
            Tier::Quick => Budget { max_runs: 8_000, wall_s: 40 },
            Tier::Thorough => Budget { max_runs: 400_000, wall_s: 420 },
        }
    }
    fn exhaustive_prefix(&self, tier: Tier) -> u64 {
        exhaustive_count(if tier == Tier::Quick { 6 } else { 8 })
    }
    fn generate(&self, seed: u64, index: u64, tier: Tier) -> Value {
        serde_json::to_value(gen(seed, index, tier)).unwrap()
    }
    fn execute(&self, plan: &Value) -> RunResult {
        let plan: Plan = serde_json::from_value(plan.clone()).expect("plan");
        let mut r = RunResult::default();
        let mut params = Params::default();
        params.slips_per_user = 16;
        let mut w = World::new(plan.seed, params);
        let mut rng = Rng::new(mix(plan.seed, 18));
        let client_key = w.keys[w.params.n_users + 1].clone();
        let extra: Vec<Key> = (0..plan.extra_keys).map(|i| derive_key(plan.seed, 300 + i as u64)).collect();
        let mut keylist: Vec<[u8; 33]> = vec![client_key.pk];
        keylist.extend(extra.iter().map(|k| k.pk));
        if plan.sender_listed {
            keylist.push(w.keys[1].pk);
            r.probe("sender_in_key_list");
        }
        // prefix of two blocks, then the block under test
        let built = crate::util::guarded(|| -> Result<(Vec<usize>, usize), String> {
            let mut cur = 0usize;
            let mut chain = vec![0usize];
            for _ in 0..2 {
                cur = w.honest_child(cur, &mut rng, 1, (w.recs[cur].id + 1) % 2 == 0, 2300, "p")?;
                chain.push(cur);
            }
            let ledger = w.ledger_at(cur);
            let ts = w.recs[cur].ts + 2400;
            let mut txs: Vec<Transaction> = vec![];
            let mut used: Vec<UtxoKey> = vec![];
            for i in 0..plan.n {
                let user = 1 + (i % w.params.n_users);
                let mine: Vec<SlipRef> = ledger.unspent_of(&w.keys[user].pk).into_iter().filter(|s| !used.contains(&s.key())).collect();
                let inp = mine.first().ok_or("out of outputs")?.clone();
                used.push(inp.key());
                let mut outs: Vec<([u8; 33], u64)> = vec![];
                let mut rest = inp.amount;
                if plan.pattern[i] {
                    outs.push((client_key.pk, 10 + i as u64));
                    rest -= 10 + i as u64;
                }
                for (ei, e) in extra.iter().enumerate() {
                    if (i + ei) % 5 == 3 {
                        outs.push((e.pk, 3));
                        rest -= 3;
                    }
                }
                // (a listed sender sweeps: the change goes to user 2)
                let change_to = if plan.sender_listed && user == 1 { w.keys[2].pk } else { w.keys[user].pk };
                outs.push((change_to, rest));
                let tag = w.next_ts_tag();
                txs.push(make_tx(&w.keys[user].clone(), &[inp], &outs, ts + tag, &tag.to_le_bytes()));
            }
            let order: Vec<[u8; 64]> = txs.iter().map(|t| t.signature).collect();
            if txs.is_empty() {
                let tag = w.next_ts_tag();
                txs.push(make_tx(&w.keys[1].clone(), &[], &[(w.keys[1].pk, 0)], ts + tag, &tag.to_le_bytes()));
            }
            let mut b = build_block(&w.builder, &w.keys, BlockSpec { parent: w.recs[cur].hash, ts, txs, gt: plan.gt, creator: 0 })?;
            // put the payments into the chosen order (GT stays first, fee tx last), then re-seal
            let mut normals: Vec<Transaction> = vec![];
            for sig in &order {
                if let Some(p) = b.transactions.iter().position(|t| &t.signature == sig) {
                    normals.push(b.transactions.remove(p));
                }
            }
            let fee_pos = b.transactions.iter().position(|t| t.transaction_type == TransactionType::Fee).unwrap_or(b.transactions.len());
            for (k, t) in normals.into_iter().enumerate() {
                b.transactions.insert(fee_pos + k, t);
            }
            reseal(&mut b, &w.keys[0].clone(), true);
            let idx = w.register(b, true, "under-test");
            chain.push(idx);
            Ok((chain, idx))
        });
        let (chain, bidx) = match built {
            Ok(Ok(x)) => x,
            _ => {
                r.discarded = true;
                r.probe("builder_failed");
                return r;
            }
        };
        let start = w.recs[bidx].ts + 5000;
        let mut sim = Sim::new(mix(plan.seed, 181), start);
        let opts = NodeOpts::default();
        let p = sim.add_node(&w.keys[0].clone(), &w.cfg.clone(), &opts);
        let pre: Vec<Vec<u8>> = chain.iter().map(|i| w.recs[*i].bytes.clone()).collect();
        if !sim.preload(p, &pre) || sim.nodes[p].tip().1 != w.recs[bidx].hash {
            r.discarded = true;
            r.probe("full_node_refused_block");
            return r;
        }
        sim.init_node(p, false);
        let full = w.block(bidx);
        let mut trace = Digest::new();
        // ---- projection at the fetch seam (same calls as the route) ----
        let served = sim.serve_fetch(&PendingFetch { node: 99, peer: 0, hash: full.hash, id: full.id, url: format!("{}/lite-block/{}/{}", sim.nodes[p].url, hex::encode(full.hash), bs58_of(&client_key.pk)) });
        // the route adds the peer's registered key list; here the extra keys are registered through the direct call
        let lite = {
            let mut b = Block::deserialize_from_net(&w.recs[bidx].bytes).unwrap();
            b.generate().unwrap();
            b.generate_lite_block(keylist.clone())
        };
        let _ = served;
        let header_equal = |a: &Block, b: &Block| -> Option<&'static str> {
            if a.id != b.id {
                return Some("id");
            }
            if a.hash != b.hash {
                return Some("hash");
            }
            if a.signature != b.signature {
                return Some("signature");
            }
            if a.creator != b.creator {
                return Some("creator");
            }
            if a.previous_block_hash != b.previous_block_hash {
                return Some("previous_block_hash");
            }
            if a.merkle_root != b.merkle_root {
                return Some("merkle_root");
            }
            if a.timestamp != b.timestamp || a.treasury != b.treasury || a.graveyard != b.graveyard || a.burnfee != b.burnfee || a.difficulty != b.difficulty || a.total_fees != b.total_fees || a.previous_block_unpaid != b.previous_block_unpaid || a.avg_total_fees != b.avg_total_fees || a.avg_fee_per_byte != b.avg_fee_per_byte || a.total_fees_new != b.total_fees_new || a.total_fees_atr != b.total_fees_atr || a.total_payout_mining != b.total_payout_mining || a.total_payout_routing != b.total_payout_routing {
                return Some("other-header-field");
            }
            None
        };
        if let Some(f) = header_equal(&lite, &full) {
            r.violate(format!("C18|header-differs|{}", f), format!("lite block field {} differs from the full block (n {}, pattern {:?})", f, plan.n, plan.pattern));
        }
        // the same projection on a copy of the block whose signed header fields all carry distinct non-zero
        // values (on a short history most of them are zero, and a field the projection forgets to copy would
        // go unnoticed): the lite block's signed header bytes and its hash after the wire must be the full ones
        {
            let mut fb = full.clone();
            fb.graveyard = 1_001;
            fb.treasury = 1_002;
            fb.burnfee = 1_003;
            fb.difficulty = 4;
            fb.avg_fee_per_byte = 1_005;
            fb.avg_nolan_rebroadcast_per_block = 1_006;
            fb.previous_block_unpaid = 1_007;
            fb.avg_total_fees = 1_008;
            fb.avg_total_fees_new = 1_009;
            fb.avg_total_fees_atr = 1_010;
            fb.avg_payout_routing = 1_011;
            fb.avg_payout_mining = 1_012;
            let l2 = fb.generate_lite_block(keylist.clone());
            if l2.serialize_for_signature() != fb.serialize_for_signature() {
                r.violate(
                    "C18|header-differs|synthetic-nonzero-header",
                    format!("with every signed header field non-zero the lite block's signed header bytes differ from the full block's (n {}, pattern {:?})", plan.n, plan.pattern),
                );
            }
        }
        // the projection of a block that no longer holds its transactions in memory (below the prune depth a
        // node keeps the header only; the API offers the projection on whatever block object it is handed):
        // nothing can be carried, but the header, and with it the hash the client computes, stays the block's
        if !full.transactions.is_empty() {
            let mut pb = full.clone();
            let _ = block_on(pb.downgrade_block_to_block_type(BlockType::Pruned, false));
            let l3 = pb.generate_lite_block(keylist.clone());
            r.fault("lite_block_of_pruned_block", 1);
            if l3.serialize_for_signature() != full.serialize_for_signature() {
                r.violate(
                    "C18|header-differs|body-less-source",
                    format!("the lite form of a block whose transactions were pruned from memory has other signed header bytes than the block (merkle root {} vs {})", crate::util::hex8(&l3.merkle_root), crate::util::hex8(&full.merkle_root)),
                );
            } else if let Ok(mut w3) = Block::deserialize_from_net(&l3.serialize_for_net(BlockType::Full)) {
                if w3.generate().is_ok() && w3.hash != full.hash {
                    r.violate("C18|wire|hash-changed|body-less-source", "hash of the lite form of a pruned block differs from the block's after the wire".to_string());
                }
            }
        }
        // every touching transaction present unmodified
        for t in full.transactions.iter().filter(|t| touches(t, &keylist)) {
            let found = lite.transactions.iter().any(|l| l.signature == t.signature && l.transaction_type == t.transaction_type && l.from == t.from && l.to == t.to && l.data == t.data);
            if !found {
                r.violate("C18|touching-tx-missing", format!("a transaction that pays to or spends from a listed key is not carried in full by the lite block (n {}, pattern {:?})", plan.n, plan.pattern));
                break;
            }
        }
        let placeholders = lite.transactions.iter().filter(|t| t.transaction_type == TransactionType::SPV).count();
        let merged = lite.transactions.iter().any(|t| t.transaction_type == TransactionType::SPV && t.txs_replacements > 1);
        // merkle root recomputable from the lite block's own transactions (before the wire)
        let root_before = MerkleTree::generate(&lite.transactions).map(|t| t.get_root_hash());
        let class = if placeholders == 0 { "no-placeholder" } else if merged { "merged-placeholders" } else { "single-placeholders" };
        if !full.transactions.is_empty() && root_before != Some(full.merkle_root) {
            r.violate(
                format!("C18|merkle-not-recomputable|before-wire|{}", class),
                format!("merkle root recomputed from the lite block's transactions differs from the header's before the wire (n {}, pattern {:?}, {} placeholders)", plan.n, plan.pattern, placeholders),
            );
        }
        // the wire
        let bytes = lite.serialize_for_net(BlockType::Full);
        match Block::deserialize_from_net(&bytes) {
            Err(_) => {
                r.violate("C18|wire|lite-block-undecodable", "the served lite block does not decode".to_string());
            }
            Ok(mut wired) => {
                if wired.generate().is_err() {
                    r.violate("C18|wire|generate-fails", "generate() fails on the served lite block".to_string());
                } else {
                    if wired.hash != full.hash {
                        r.violate("C18|wire|hash-changed", format!("hash of the lite block after the wire differs from the full block's (n {}, pattern {:?})", plan.n, plan.pattern));
                    }
                    // what the light client holds after it regenerated the received block: every touching
                    // transaction with the very outputs (position in the block = ledger key included) the full
                    // block gives it
                    for t in full.transactions.iter().filter(|t| touches(t, &keylist)) {
                        let same = wired.transactions.iter().any(|l| {
                            l.signature == t.signature
                                && l.to.len() == t.to.len()
                                && l.to.iter().zip(t.to.iter()).all(|(a, b)| a.public_key == b.public_key && a.amount == b.amount && a.slip_type == b.slip_type && a.slip_index == b.slip_index && a.tx_ordinal == b.tx_ordinal && a.block_id == b.block_id && a.utxoset_key == b.utxoset_key)
                        });
                        if !same {
                            r.violate(
                                "C18|wire|touching-tx-outputs-differ",
                                format!("after the wire a transaction touching the key list is missing or its outputs carry other ledger coordinates than in the full block (n {}, pattern {:?})", plan.n, plan.pattern),
                            );
                            break;
                        }
                    }
                    let root_after = MerkleTree::generate(&wired.transactions).map(|t| t.get_root_hash());
                    if !full.transactions.is_empty() && root_after != Some(full.merkle_root) {
                        r.violate(
                            format!("C18|merkle-not-recomputable|after-wire|{}", class),
                            format!("merkle root recomputed from the lite block's transactions differs from the header's after the wire (n {}, pattern {:?}, {} placeholders)", plan.n, plan.pattern, placeholders),
                        );
                    }
                }
            }
        }
        trace.u64(plan.n as u64).u64(placeholders as u64).u64(r.violations.len() as u64);
        let mut d = Digest::new();
        d.u64(plan.n as u64).u64(plan.extra_keys as u64);
        for b in &plan.pattern {
            d.u64(*b as u64);
        }
        r.nontrivial.push(d.get());
        r.probe(class);
        // ---- a real SPV node syncs the block ----
        if plan.sync {
            let mut scfg = w.cfg.clone();
            scfg.spv = true;
            scfg.peers = vec![static_peer("node0")];
            let s = sim.add_node(&client_key, &scfg, &opts);
            sim.init_node(s, false);
            let mut rounds = 0;
            let mut got = false;
            while rounds < 12 {
                rounds += 1;
                sim.advance(2100);
                sim.tick(s, P_ROUTING);
                sim.tick(p, P_ROUTING);
                sim.resolve_connects(|n, _| if n == s { Some(p) } else { None });
                if !sim.run_until_quiet(50_000) {
                    break;
                }
                let bc = block_on(sim.nodes[s].blockchain_lock.read());
                if bc.blocks.contains_key(&full.hash) {
                    got = true;
                    break;
                }
            }
            r.steps = sim.steps;
            if let Some((n, what, pan)) = sim.panics.first() {
                r.violate(format!("C18|panic|{}|{}", what, pan.site()), format!("node{} {}: {} ({}:{})", n, what, pan.msg.chars().take(140).collect::<String>(), pan.file, pan.line));
            } else if !got {
                r.violate("C18|spv-sync|block-not-obtained", format!("the SPV node did not end up holding block id {} under its advertised hash after {} rounds", full.id, rounds));
            } else {
                r.probe("spv_node_obtained_block");
            }
            trace.u64(got as u64).u64(sim.schedule_digest.get());
            r.schedule_hash = sim.schedule_digest.get();
        }
        r.state_hash = trace.get();
        r.trace_hash = trace.get();
        r
    }
    fn shrink(&self, plan: &Value) -> Vec<Value> {
        let p: Plan = match serde_json::from_value(plan.clone()) {
            Ok(p) => p,
            Err(_) => return vec![],
        };
        let mut out = vec![];
        if p.sync {
            let mut q = p.clone();
            q.sync = false;
            out.push(q);
        }
        if p.extra_keys > 0 {
            let mut q = p.clone();
            q.extra_keys = 0;
            out.push(q);
        }
        if p.n > 0 {
            for i in 0..p.n {
                let mut q = p.clone();
                q.n -= 1;
                q.pattern.remove(i);
                out.push(q);
            }
        }
        if p.gt {
            let mut q = p.clone();
            q.gt = false;
            out.push(q);
        }
        out.into_iter().map(|p| serde_json::to_value(p).unwrap()).collect()
    }
}

fn bs58_of(pk: &[u8; 33]) -> String {
    use saito_core::core::defs::PrintForLog;
    pk.to_base58()
}
