//! C11 — no sequence of peer inputs crashes or stalls the node.
//!
//! Node under test (real routing / verification / consensus / mining processors, producing blocks
//! by timer) with one honest scripted peer and an attacker holding 1-2 connections (authenticated
//! or not). Attacker sequences of well-formed but hostile messages, fetch bodies and connection
//! events, interleaved with honest blocks, transactions, timer ticks and clock jumps.

use saito_core::core::consensus::block::{Block, BlockType};
use saito_core::core::consensus::slip::Slip;
use saito_core::core::consensus::transaction::{Transaction, TransactionType};
use saito_core::core::msg::api_message::ApiMessage;
use saito_core::core::msg::ghost_chain_sync::GhostChainSync;
use saito_core::core::msg::handshake::{HandshakeChallenge, HandshakeResponse};
use saito_core::core::msg::message::Message;
use saito_core::core::util::crypto::sign;
use serde::{Deserialize, Serialize};
use serde_json::Value;

use crate::framework::*;
use crate::l2::*;
use crate::rng::{mix, Rng};
use crate::util::{block_on, Digest};
use crate::world::*;

pub struct C11;

#[derive(Clone, Debug, Serialize, Deserialize)]
pub struct Move {
    pub k: String,
    pub a: u64,
}

#[derive(Clone, Debug, Serialize, Deserialize)]
pub struct Plan {
    pub seed: u64,
    pub attacker_authenticated: bool,
    pub depth: usize,
    pub moves: Vec<Move>,
    /// after the last move the node is stopped and started again from its simulated disk (which also holds
    /// whatever well-formed hostile blocks it stored as side blocks): start-up must not crash on them and
    /// must come back to the same tip
    #[serde(default)]
    pub final_restart: bool,
    /// the node under test starts with an empty chain (a node that has just been set up and syncs from its
    /// peers): whatever block reaches it first is the first block of an empty block ring. Such a node takes
    /// what it is given, so only the crash / stall clauses are judged
    #[serde(default)]
    pub fresh_victim: bool,
    /// the node's log statements are evaluated up to debug level (into a sink), as on a node started with debug
    /// logging: whatever a log statement computes from peer-controlled state runs too
    #[serde(default)]
    pub debug_logging: bool,
}

pub const HOSTILE: &[&str] = &[
    "tag-block",
    "ghost-request",
    "ghost-chain",
    "keylist-storm",
    "second-handshake-other-key",
    "unsolicited-response",
    "challenge",
    "blockchain-request",
    "services",
    "api",
    "announce-garbage",
    "hostile-block-double-spend",
    "hostile-block-id-zero",
    "hostile-block-future",
    "hostile-block-bad-gt-payload",
    "hostile-block-no-tx",
    "hostile-block-huge-replacements",
    "hostile-block-same-input-twice",
    "hostile-block-id-zero-parent",
    "issuance-tx-no-from",
    "tx-no-outputs",
    "typed-tx-odd-shape",
    "typed-tx-odd-shape",
    "unparsable-signature",
    "gt-tx-bad-payload",
    "reconnect-storm",
    "ping",
    "header-hash-storm",
];
pub const BENIGN: &[&str] = &["honest-block", "honest-tx", "timer", "clock-forward", "clock-back"];

fn gen(seed: u64, tier: Tier) -> Plan {
    let mut rng = Rng::new(seed);
    let n = rng.range(3, if tier == Tier::Quick { 25 } else { 80 });
    let moves = (0..n)
        .map(|_| {
            let k = if rng.chance(2, 3) { rng.pick(HOSTILE).to_string() } else { rng.pick(BENIGN).to_string() };
            Move { k, a: rng.below(16) }
        })
        .collect();
    Plan { seed, attacker_authenticated: rng.chance(2, 3), depth: rng.range(2, 6) as usize, moves, final_restart: rng.chance(1, 3), fresh_victim: rng.chance(1, 8), debug_logging: rng.chance(1, 8) }
}

fn state_digest(sim: &Sim, n: usize, honest_idx: u64, honest_key: &[u8; 33]) -> (u64, String) {
    let bc = block_on(sim.nodes[n].blockchain_lock.read());
    let mp = block_on(sim.nodes[n].mempool_lock.read());
    let peers = block_on(sim.nodes[n].peer_lock.read());
    let mut d = Digest::new();
    d.bytes(&bc.get_latest_block_hash()).u64(bc.get_latest_block_id());
    let mut keys: Vec<[u8; 59]> = bc.utxoset.iter().filter(|(_, v)| **v).map(|(k, _)| *k).collect();
    keys.sort();
    for k in &keys {
        d.bytes(k);
    }
    let mut nblocks: Vec<[u8; 32]> = bc.blocks.keys().cloned().collect();
    nblocks.sort();
    for b in &nblocks {
        d.bytes(b);
    }
    let mut sigs: Vec<[u8; 64]> = mp.transactions.keys().cloned().collect();
    sigs.sort();
    for s in &sigs {
        d.bytes(s);
    }
    let hp = peers.index_to_peers.get(&honest_idx);
    let desc = match hp {
        Some(p) => format!("{:?}/{:?}/{}/{}", matches!(p.peer_status, saito_core::core::consensus::peers::peer::PeerStatus::Connected), p.public_key.map(|k| k[1]), p.key_list.len(), p.block_fetch_url),
        None => "missing".to_string(),
    };
    d.str(&desc);
    d.u64(peers.address_to_peers.get(honest_key).cloned().unwrap_or(0));
    (d.get(), format!("tip {} blocks {} utxo {} pool {} honest-peer {}", bc.get_latest_block_id(), nblocks.len(), keys.len(), sigs.len(), desc))
}

impl Scenario for C11 {
    fn id(&self) -> &'static str {
        "C11"
    }
    fn meta(&self) -> Meta {
        Meta {
            level: "exploration",
            rule: "run = node under test preloaded with 2-6 blocks (one run in eight: with an empty chain, as a node that was just set up - it takes whatever block reaches it first, so only the crash and stall clauses are judged there), producing blocks by timer, one honest scripted peer (authenticated, announces and serves the honest continuation, sends valid transactions) and an attacker connection (authenticated in 2/3 of the runs) plus a second unauthenticated one; 3..25/80 moves, 2/3 hostile from a 22-entry catalogue (Block-tagged message, ghost-chain request / unsolicited ghost chain, 150 key-list updates, second handshake with another key, unsolicited response, challenge, blockchain request, services, api messages, announcements answered with garbage, announced blocks that are well-formed but hostile: in-block double spend, id 0, timestamp far in the future, golden-ticket transaction with malformed payload, no transactions; issuance-typed transaction without inputs, transaction without outputs, golden-ticket transaction with malformed payload, connect/disconnect storm, ping, header-hash storm) and 1/3 benign (honest block, honest transaction, timer round, clock jump forward/back). After each move the whole system runs to quiescence (cap 20000 steps). One run in eight evaluates the node's log statements up to debug level into a sink (a node started with debug logging runs whatever its log statements compute from peer-controlled state). In a third of the runs the node is finally stopped and started again from its own simulated disk, which by then also holds the well-formed hostile blocks it stored as side blocks: start-up must not panic and must come back to the same tip and spendable set. Oracle: no handler panics; quiescence is reached; after a hostile move the digest of {tip, stored blocks, spendable set, pool, the honest peer's entry, its key mapping} is unchanged. distinct_nontrivial = distinct attacker sequences that delivered >= 3 hostile items to a node with >= 1 honest peer.",
            real: &["RoutingThread", "VerificationThread", "ConsensusThread (timer-driven bundling)", "MiningThread", "Network/Peer/PeerCollection", "Blockchain/Mempool", "rate limiters"],
            stubs: &["SimNet scripted honest peer and attacker", "fetch bodies chosen by the scenario", "SimClock with jumps"],
            assumptions: &["orphan deliveries are not generated here (known finding of C03/C05)", "event-granularity scheduling"],
        }
    }
    fn budget(&self, tier: Tier) -> Budget {
        match tier {
            Tier::Quick => Budget { max_runs: 20_000, wall_s: 45 },
            Tier::Thorough => Budget { max_runs: 1_000_000, wall_s: 480 },
        }
    }
    fn generate(&self, seed: u64, index: u64, tier: Tier) -> Value {
        serde_json::to_value(gen(derive_run_seed(seed, "C11", index), tier)).unwrap()
    }
    fn execute(&self, plan: &Value) -> RunResult {
        let plan: Plan = serde_json::from_value(plan.clone()).expect("plan");
        let mut r = RunResult::default();
        struct LogGuard;
        impl Drop for LogGuard {
            fn drop(&mut self) {
                crate::util::sink_logging(false);
            }
        }
        let _log_guard = LogGuard;
        if plan.debug_logging {
            crate::util::sink_logging(true);
            r.fault("debug_logging_evaluated", 1);
        }
        let mut w = World::new(plan.seed, Params::default());
        let mut rng = Rng::new(mix(plan.seed, 11));
        let built = crate::util::guarded(|| -> Result<Vec<usize>, String> {
            let mut cur = 0usize;
            let mut v = vec![0usize];
            for _ in 0..plan.depth {
                cur = w.honest_child(cur, &mut rng, 1, (w.recs[cur].id + 1) % 2 == 0, 2300, "c")?;
                v.push(cur);
            }
            Ok(v)
        });
        let chain = match built {
            Ok(Ok(v)) => v,
            _ => {
                r.discarded = true;
                return r;
            }
        };
        let mut honest_tip = *chain.last().unwrap();
        let start = w.recs[honest_tip].ts + 5_000;
        let mut sim = Sim::new(mix(plan.seed, 111), start);
        let mut opts = NodeOpts::default();
        opts.produce_blocks_by_timer = !plan.fresh_victim;
        opts.mining_enabled = true;
        opts.mining_iterations = 4;
        let n = sim.add_node(&w.keys[2].clone(), &w.cfg.clone(), &opts);
        let pre: Vec<Vec<u8>> = if plan.fresh_victim { vec![] } else { chain.iter().map(|i| w.recs[*i].bytes.clone()).collect() };
        if plan.fresh_victim {
            r.fault("node_with_empty_chain", 1);
        }
        if !pre.is_empty() && !sim.preload(n, &pre) {
            r.discarded = true;
            return r;
        }
        sim.init_node(n, true);
        let version = saito_core::core::process::version::read_pkg_version();
        let hk = derive_key(plan.seed, 60);
        let ak = derive_key(plan.seed, 61);
        let ak2 = derive_key(plan.seed, 62);
        let handshake = |sim: &mut Sim, ext: usize, c: usize, key: &Key, url: &str| {
            sim.settle_without_fetches(3000);
            for (cc, m) in sim.take_ext_inbox(ext) {
                if cc != c {
                    continue;
                }
                if let Ok(Message::HandshakeChallenge(ch)) = Message::deserialize(m) {
                    let resp = HandshakeResponse {
                        public_key: key.pk,
                        signature: sign(&ch.challenge, &key.sk),
                        is_lite: false,
                        block_fetch_url: url.to_string(),
                        challenge: [1; 32],
                        services: vec![],
                        wallet_version: version,
                        core_version: version,
                    };
                    sim.ext_send(c, Message::HandshakeResponse(resp).serialize());
                }
            }
            sim.settle_without_fetches(3000);
            let _ = sim.take_ext_inbox(ext);
        };
        // honest peer = ext 1, attacker = ext 0
        let (hc, hidx) = sim.connect_external(1, n);
        handshake(&mut sim, 1, hc, &hk, "http://honest");
        let (mut ac, mut aidx) = sim.connect_external(0, n);
        if plan.attacker_authenticated {
            handshake(&mut sim, 0, ac, &ak, "http://attacker");
        } else {
            sim.settle_without_fetches(3000);
            let _ = sim.take_ext_inbox(0);
        }
        let (ac2, _aidx2) = sim.connect_external(0, n);
        sim.settle_without_fetches(3000);
        let _ = sim.take_ext_inbox(0);
        sim.fetches.clear();

        let mut hostile_bodies: std::collections::BTreeMap<[u8; 32], Vec<u8>> = Default::default();
        let mut trace = Digest::new();
        let mut hostile_delivered = 0u64;
        // a well-formed block whose parent the node does not have was handed to it (only the id-zero-parent
        // item does that): from then on the node is inside the recorded orphan-branch finding of C03/C05/C15
        // (Blockchain::add_block clears the longest-chain marks above the parentless block's id), and its
        // known consequences - the node's next own block starts a new chain and the supply audit aborts,
        // the tip or ledger differ after a restart - are reported under that finding, not as new ones
        let mut parentless_delivered = false;
        const ORPHAN_SIG: &str = "C11|after-parentless-block|chain-marks-cleared";
        // settle everything; fetches are answered by the party that announced them
        let mut settle = |sim: &mut Sim, w: &World, hostile_bodies: &std::collections::BTreeMap<[u8; 32], Vec<u8>>| -> bool {
            let mut guard = 0;
            loop {
                if !sim.settle_without_fetches(20_000) {
                    return false;
                }
                if sim.fetches.is_empty() {
                    return true;
                }
                guard += 1;
                if guard > 200 {
                    return false;
                }
                let f = sim.fetches[0].clone();
                let body = if let Some(b) = hostile_bodies.get(&f.hash) {
                    Some(b.clone())
                } else if let Some(i) = w.by_hash.get(&f.hash) {
                    // never hand over a child before its parent (orphan class)
                    let known = w.recs[*i].parent == [0; 32] || block_on(sim.nodes[0].blockchain_lock.read()).blocks.contains_key(&w.recs[*i].parent);
                    if known {
                        Some(w.recs[*i].bytes.clone())
                    } else {
                        None
                    }
                } else {
                    Some(vec![0x31; 77])
                };
                sim.complete_fetch_with(0, body);
            }
        };
        for (mi, mv) in plan.moves.iter().enumerate() {
            trace.str(&mv.k).u64(mv.a);
            let hostile = HOSTILE.contains(&mv.k.as_str());
            let (before, before_desc) = state_digest(&sim, n, hidx, &hk.pk);
            let tip = sim.nodes[n].tip();
            // (on a node with an empty chain the hostile blocks are cut from a child of the world's genesis block)
            let tip_idx = w.by_hash.get(&tip.1).cloned().or(if plan.fresh_victim { Some(0) } else { None });
            let aconn = if mv.a % 3 == 2 { ac2 } else { ac };
            let mut send = |sim: &mut Sim, m: Message| sim.ext_send(aconn, m.serialize());
            match mv.k.as_str() {
                "tag-block" => {
                    let mut v = vec![3u8];
                    v.extend(w.recs[chain[1]].bytes.clone());
                    sim.ext_send(aconn, v);
                }
                "ghost-request" => send(&mut sim, Message::GhostChainRequest(1, w.recs[0].hash, [0; 32])),
                "ghost-chain" => {
                    let g = GhostChainSync {
                        start: tip.1,
                        prehashes: vec![[0x11; 32], [0x12; 32]],
                        previous_block_hashes: vec![tip.1, [0x13; 32]],
                        block_ids: vec![tip.0 + 1, tip.0 + 2],
                        block_ts: vec![sim.now(), sim.now() + 1],
                        txs: vec![false, false],
                        gts: vec![false, true],
                    };
                    send(&mut sim, Message::GhostChain(g));
                }
                "keylist-storm" => {
                    for i in 0..150u64 {
                        let mut k = [2u8; 33];
                        k[5] = i as u8;
                        sim.ext_send(aconn, Message::KeyListUpdate(vec![k]).serialize());
                    }
                }
                "unparsable-signature" => {
                    // 64 bytes that are not an ECDSA signature at all (r, s above the group order), next to a
                    // well-formed public key: in a handshake answer to a fresh challenge, and on a transaction
                    let bad_sig = if mv.a % 2 == 0 { [0xFFu8; 64] } else { { let mut x = [0xFFu8; 64]; x[63] = mv.a as u8; x } };
                    send(&mut sim, Message::HandshakeChallenge(HandshakeChallenge { challenge: [0x31; 32] }));
                    sim.settle_without_fetches(3000);
                    for (cc, m) in sim.take_ext_inbox(0) {
                        if cc != aconn {
                            continue;
                        }
                        if let Ok(Message::HandshakeResponse(_)) = Message::deserialize(m) {
                            let resp2 = HandshakeResponse {
                                public_key: ak2.pk,
                                signature: bad_sig,
                                is_lite: false,
                                block_fetch_url: "http://attacker3".into(),
                                challenge: [0; 32],
                                services: vec![],
                                wallet_version: version,
                                core_version: version,
                            };
                            sim.ext_send(aconn, Message::HandshakeResponse(resp2).serialize());
                        }
                    }
                    let mut t = Transaction::default();
                    t.timestamp = sim.now();
                    let mut i = Slip::default();
                    i.public_key = ak.pk;
                    t.add_from_slip(i);
                    let mut o = Slip::default();
                    o.public_key = ak.pk;
                    t.add_to_slip(o);
                    t.sign(&ak.sk);
                    t.signature = bad_sig;
                    send(&mut sim, Message::Transaction(t));
                }
                "second-handshake-other-key" => {
                    send(&mut sim, Message::HandshakeChallenge(HandshakeChallenge { challenge: [0x21; 32] }));
                    sim.settle_without_fetches(3000);
                    for (cc, m) in sim.take_ext_inbox(0) {
                        if cc != aconn {
                            continue;
                        }
                        if let Ok(Message::HandshakeResponse(resp)) = Message::deserialize(m) {
                            let resp2 = HandshakeResponse {
                                public_key: ak2.pk,
                                signature: sign(&resp.challenge, &ak2.sk),
                                is_lite: false,
                                block_fetch_url: "http://attacker2".into(),
                                challenge: [0; 32],
                                services: vec![],
                                wallet_version: version,
                                core_version: version,
                            };
                            sim.ext_send(aconn, Message::HandshakeResponse(resp2).serialize());
                        }
                    }
                }
                "unsolicited-response" => {
                    let resp = HandshakeResponse {
                        public_key: hk.pk, // claims to be the honest peer
                        signature: sign(&[5; 32], &ak.sk),
                        is_lite: false,
                        block_fetch_url: "http://evil".into(),
                        challenge: [0; 32],
                        services: vec![],
                        wallet_version: version,
                        core_version: version,
                    };
                    send(&mut sim, Message::HandshakeResponse(resp));
                }
                "challenge" => send(&mut sim, Message::HandshakeChallenge(HandshakeChallenge { challenge: [mi as u8; 32] })),
                "blockchain-request" => {
                    let mut b = vec![5u8];
                    b.extend_from_slice(&(mv.a * 1000).to_be_bytes());
                    b.extend_from_slice(&[7u8; 32]);
                    b.extend_from_slice(&[8u8; 32]);
                    sim.ext_send(aconn, b);
                }
                "services" => send(&mut sim, Message::Services(vec![])),
                "api" => {
                    send(&mut sim, Message::ApplicationMessage(ApiMessage { msg_index: 1, data: vec![0; 300] }));
                    send(&mut sim, Message::Result(ApiMessage { msg_index: 2, data: vec![] }));
                    send(&mut sim, Message::Error(ApiMessage { msg_index: 3, data: vec![1] }));
                }
                "announce-garbage" => {
                    let mut h = [0xC0u8; 32];
                    h[1] = mv.a as u8;
                    send(&mut sim, Message::BlockHeaderHash(h, tip.0 + 1));
                }
                "header-hash-storm" => {
                    for i in 0..40u64 {
                        let mut h = [0xC1u8; 32];
                        h[1] = i as u8;
                        sim.ext_send(aconn, Message::BlockHeaderHash(h, tip.0 + 1 + i % 3).serialize());
                    }
                }
                k if k.starts_with("hostile-block-") => {
                    if let Some(ti) = tip_idx {
                        let kind = &k["hostile-block-".len()..];
                        let mut hostile_extra: Vec<([u8; 32], Vec<u8>)> = vec![];
                        let made = crate::util::guarded(|| -> Option<Block> {
                            let mut r2 = Rng::new(mix(plan.seed, 900 + mi as u64));
                            let ci = w.honest_child(ti, &mut r2, 2, (w.recs[ti].id + 1) % 2 == 0, 2300, "hostile-base").ok()?;
                            let mut b = w.block(ci);
                            let creator = w.keys[0].clone();
                            match kind {
                                "double-spend" => {
                                    let t = b.transactions.iter().find(|t| t.transaction_type == TransactionType::Normal && t.from.iter().any(|s| s.amount > 0))?.clone();
                                    let mut t2 = t.clone();
                                    t2.timestamp += 1;
                                    t2.sign(&w.keys.iter().find(|k| k.pk == t.from[0].public_key)?.sk);
                                    b.transactions.insert(0, t2);
                                    // reseal by hand: generate() refuses, so compute merkle/prehash/sig/hash directly
                                    b.merkle_root = b.generate_merkle_root(false, false);
                                    b.generate_pre_hash();
                                    b.sign(&creator.sk);
                                    b.generate_hash();
                                }
                                "same-input-twice" => {
                                    // the block's first transaction lists one of its inputs twice
                                    let pos = b.transactions.iter().position(|t| t.transaction_type == TransactionType::Normal && t.from.iter().any(|s| s.amount > 0))?;
                                    let mut t = b.transactions.remove(pos);
                                    let dup = t.from.iter().find(|s| s.amount > 0)?.clone();
                                    t.add_from_slip(dup);
                                    t.sign(&w.keys.iter().find(|k| k.pk == t.from[0].public_key)?.sk);
                                    b.transactions.insert(0, t);
                                    b.merkle_root = b.generate_merkle_root(false, false);
                                    b.generate_pre_hash();
                                    b.sign(&creator.sk);
                                    b.generate_hash();
                                }
                                "huge-replacements" => {
                                    // a placeholder-typed stub that claims to stand for millions of transactions:
                                    // whoever builds the merkle tree of this block is asked for that many leaves.
                                    // (3 million: enough to see, small enough for 16 parallel workers)
                                    let mut t = Transaction::default();
                                    t.transaction_type = TransactionType::SPV;
                                    t.txs_replacements = 3_000_000;
                                    t.timestamp = b.timestamp;
                                    t.signature = [7; 64];
                                    b.transactions.push(t);
                                    // header commitment left empty so that the receiver computes it on arrival
                                    b.merkle_root = [0; 32];
                                    b.generate_pre_hash();
                                    b.sign(&creator.sk);
                                    b.generate_hash();
                                }
                                "id-zero" => {
                                    b.id = 0;
                                    reseal(&mut b, &creator, false);
                                }
                                "id-zero-parent" => {
                                    // a block with id 1 whose parent the node does not know: the node asks the
                                    // sender for that parent under id 0 and is served a well-formed block with id 0
                                    let mut z = b.clone();
                                    z.id = 0;
                                    reseal(&mut z, &creator, false);
                                    hostile_extra.push((z.hash, z.serialize_for_net(BlockType::Full)));
                                    b.id = 1;
                                    b.previous_block_hash = z.hash;
                                    reseal(&mut b, &creator, false);
                                }
                                "future" => {
                                    b.timestamp += 10_000_000_000;
                                    reseal(&mut b, &creator, false);
                                }
                                "bad-gt-payload" => {
                                    let mut g = gt_tx(mine_gt(w.recs[ti].hash, 0, &creator, 3), &creator);
                                    g.data.truncate(40);
                                    g.sign(&creator.sk);
                                    b.transactions.retain(|t| t.transaction_type != TransactionType::GoldenTicket && t.transaction_type != TransactionType::Fee);
                                    b.transactions.insert(0, g);
                                    reseal(&mut b, &creator, true);
                                }
                                _ => {
                                    b.transactions.clear();
                                    reseal(&mut b, &creator, true);
                                }
                            }
                            Some(b)
                        });
                        if let Ok(Some(b)) = made {
                            let bytes = b.serialize_for_net(BlockType::Full);
                            hostile_bodies.insert(b.hash, bytes);
                            for (h, body) in hostile_extra.drain(..) {
                                hostile_bodies.insert(h, body);
                                parentless_delivered = true;
                                r.fault("parentless_block_delivered", 1);
                            }
                            // only an authenticated attacker has a fetch url; otherwise the announcement is dropped
                            // (an id-0 block is announced under its own id in half of the cases, under id 1 otherwise)
                            let announced_id = if mv.a % 2 == 0 { b.id } else { b.id.max(1) };
                            sim.ext_send(ac, Message::BlockHeaderHash(b.hash, announced_id).serialize());
                        }
                    }
                }
                "issuance-tx-no-from" => {
                    let mut t = Transaction::default();
                    t.transaction_type = TransactionType::Issuance;
                    t.timestamp = sim.now();
                    let mut o = Slip::default();
                    o.public_key = ak.pk;
                    o.amount = 1_000;
                    t.add_to_slip(o);
                    t.sign(&ak.sk);
                    send(&mut sim, Message::Transaction(t));
                }
                "tx-no-outputs" => {
                    let mut t = Transaction::default();
                    t.timestamp = sim.now();
                    let mut i = Slip::default();
                    i.public_key = ak.pk;
                    t.add_from_slip(i);
                    t.sign(&ak.sk);
                    send(&mut sim, Message::Transaction(t));
                }
                "typed-tx-odd-shape" => {
                    // a correctly signed transaction of a special type whose slip lists have an unexpected
                    // shape (0..4 inputs / outputs, bound / normal slip types in NFT order or not, zero
                    // amounts so that nothing has to exist in the ledger)
                    let mut sr = Rng::new(mix(plan.seed, 0x7e00 + mi as u64));
                    let ty = *sr.pick(&[TransactionType::Bound, TransactionType::Bound, TransactionType::BlockStake, TransactionType::ATR, TransactionType::SPV, TransactionType::Vip, TransactionType::Fee]);
                    let mut t = Transaction::default();
                    t.transaction_type = ty;
                    t.timestamp = sim.now();
                    let nft_order = sr.chance(2, 3);
                    let pattern = |k: usize, sr: &mut Rng| -> saito_core::core::consensus::slip::SlipType {
                        use saito_core::core::consensus::slip::SlipType as ST;
                        if nft_order {
                            if k % 2 == 0 { ST::Bound } else { ST::Normal }
                        } else {
                            *sr.pick(&[ST::Normal, ST::Bound, ST::ATR, ST::BlockStake])
                        }
                    };
                    let n_in = sr.below(5) as usize;
                    let n_out = sr.below(5) as usize;
                    for k in 0..n_in {
                        let mut i = Slip::default();
                        i.public_key = ak.pk;
                        i.slip_type = pattern(k, &mut sr);
                        i.slip_index = k as u8;
                        t.add_from_slip(i);
                    }
                    for k in 0..n_out {
                        let mut o = Slip::default();
                        o.public_key = ak.pk;
                        o.slip_type = pattern(k, &mut sr);
                        t.add_to_slip(o);
                    }
                    t.sign(&ak.sk);
                    send(&mut sim, Message::Transaction(t));
                }
                "gt-tx-bad-payload" => {
                    let mut g = gt_tx(mine_gt(tip.1, 0, &ak, 5), &ak);
                    g.data.truncate((mv.a as usize * 7) % 97);
                    g.sign(&ak.sk);
                    send(&mut sim, Message::Transaction(g));
                }
                "reconnect-storm" => {
                    for _ in 0..3 {
                        sim.close_conn(ac);
                        let (c, i) = sim.connect_external(0, n);
                        ac = c;
                        aidx = i;
                        if plan.attacker_authenticated && mv.a % 2 == 0 {
                            handshake(&mut sim, 0, ac, &ak, "http://attacker");
                        }
                    }
                    let _ = aidx;
                }
                "ping" => send(&mut sim, Message::Ping()),
                // benign
                "honest-block" => {
                    if tip_idx == Some(honest_tip) {
                        let mut r2 = Rng::new(mix(plan.seed, 500 + mi as u64));
                        if let Ok(Ok(ci)) = crate::util::guarded(|| w.honest_child(honest_tip, &mut r2, 1, (w.recs[honest_tip].id + 1) % 2 == 0, (sim.now().saturating_sub(w.recs[honest_tip].ts)).max(2100), "honest-next")) {
                            honest_tip = ci;
                            sim.ext_send(hc, Message::BlockHeaderHash(w.recs[ci].hash, w.recs[ci].id).serialize());
                        }
                    }
                }
                "honest-tx" => {
                    if let Some(ti) = tip_idx {
                        let ledger = w.ledger_at(ti);
                        if let Some((t, _)) = w.payment(&ledger, 1 + (mv.a as usize % 3), 2, mv.a as usize, 200, sim.now()) {
                            sim.ext_send(hc, Message::Transaction(t).serialize());
                        }
                    }
                }
                "timer" => {
                    sim.advance(2100);
                    sim.tick(n, P_ROUTING);
                    sim.tick(n, P_MINING);
                    sim.tick(n, P_CONSENSUS);
                }
                "clock-forward" => {
                    sim.advance(60_000 * (1 + mv.a));
                    sim.tick(n, P_CONSENSUS);
                    r.fault("clock_jump_forward", 1);
                }
                "clock-back" => {
                    sim.nodes[n].clock.set_offset(-(20_000 * (1 + mv.a as i64)));
                    sim.tick(n, P_CONSENSUS);
                    // while the clock reads earlier than before, the peers keep talking: every per-peer limiter sees
                    // a "now" that lies before the start of its current window
                    sim.ext_send(aconn, Message::Ping().serialize());
                    sim.ext_send(hc, Message::Ping().serialize());
                    sim.tick(n, P_ROUTING);
                    let _ = sim.settle_without_fetches(20_000);
                    sim.nodes[n].clock.set_offset(0);
                    r.fault("clock_jump_back", 1);
                }
                _ => {}
            }
            if hostile {
                hostile_delivered += 1;
                r.fault(&format!("hostile_{}", mv.k), 1);
            }
            let live0 = crate::alloc::window_start();
            let quiet = settle(&mut sim, &w, &hostile_bodies);
            let peak = crate::alloc::window_peak(live0);
            if hostile && peak > 128 << 20 {
                r.violate(
                    format!("C11|resource-exhaustion|{}", mv.k),
                    format!("move {} ({}): handling the peer's input allocated {} MiB at its peak", mi, mv.k, peak >> 20),
                );
                break;
            }
            let _ = sim.take_ext_inbox(0);
            let _ = sim.take_ext_inbox(1);
            // a block the node produced itself extends the honest chain for the scripted peer too
            let ntip = sim.nodes[n].tip();
            if !w.by_hash.contains_key(&ntip.1) && sim.panics.is_empty() {
                let bytes = {
                    let bc = block_on(sim.nodes[n].blockchain_lock.read());
                    bc.get_block(&ntip.1).map(|b| b.serialize_for_net(BlockType::Full))
                };
                if let Some(bytes) = bytes {
                    if let Ok(mut b) = Block::deserialize_from_net(&bytes) {
                        if b.generate().is_ok() && w.by_hash.contains_key(&b.previous_block_hash) {
                            let i = w.register(b, true, "self-produced");
                            honest_tip = i;
                        }
                    }
                }
            }
            if let Some((nn, what, p)) = sim.panics.first() {
                if parentless_delivered && p.site().contains("cannot_continue_with_invalid_total_supply") {
                    r.violate(ORPHAN_SIG, format!("move {} ({}): after a parentless block was delivered node{} {} aborted in its supply audit ({}:{})", mi, mv.k, nn, what, p.file, p.line));
                    break;
                }
                r.violate(
                    format!("C11|panic|{}|{}|{}", mv.k, what, p.site()),
                    format!("move {} ({}): node{} {} panicked: {} ({}:{})", mi, mv.k, nn, what, p.msg.chars().take(140).collect::<String>(), p.file, p.line),
                );
                break;
            }
            if !quiet {
                r.violate(format!("C11|stall|{}", mv.k), format!("move {} ({}): the node did not quiesce within the step cap", mi, mv.k));
                break;
            }
            // (a block with a far-future timestamp is re-sealed with the honest creator's key by the harness;
            // the protocol has no future-timestamp rule, and when the parent's burn fee has decayed to zero the
            // block is simply valid - its adoption is not a state change caused by *rejected* input)
            // (nor is a well-formed block that the node merely stores next to its chain: the id-0 parent)
            if hostile && mv.k != "hostile-block-future" && mv.k != "hostile-block-id-zero-parent" && !plan.fresh_victim {
                let (after, after_desc) = state_digest(&sim, n, hidx, &hk.pk);
                if after != before && parentless_delivered {
                    r.violate(ORPHAN_SIG, format!("move {} ({}): after a parentless block was delivered the honest-visible state changes on hostile input: before [{}] after [{}]", mi, mv.k, before_desc, after_desc));
                    break;
                }
                if after != before {
                    r.violate(
                        format!("C11|state-changed-by-hostile-input|{}", mv.k),
                        format!("move {} ({}): honest-visible state changed: before [{}] after [{}]", mi, mv.k, before_desc, after_desc),
                    );
                    break;
                }
            }
        }
        // stop and start again from the node's own disk
        if plan.final_restart && r.violations.is_empty() {
            let tip_before = sim.nodes[n].tip();
            let utxo_before = {
                let bc = block_on(sim.nodes[n].blockchain_lock.read());
                let mut v: Vec<[u8; 59]> = bc.utxoset.iter().filter(|(_, s)| **s).map(|(k, _)| *k).collect();
                v.sort();
                v
            };
            let mut ropts = NodeOpts::default();
            ropts.mining_enabled = false;
            sim.restart_node(n, &w.cfg.clone(), &ropts, None);
            sim.init_node(n, false);
            r.fault("restart_after_hostile_traffic", 1);
            if let Some((nn, what, p)) = sim.panics.first().filter(|x| parentless_delivered && x.2.site().contains("cannot_continue_with_invalid_total_supply")) {
                r.violate(ORPHAN_SIG, format!("restart after a parentless block was delivered: node{} {} aborted in its supply audit ({}:{})", nn, what, p.file, p.line));
            } else if let Some((nn, what, p)) = sim.panics.first() {
                r.violate(
                    format!("C11|panic|restart|{}|{}", what, p.site()),
                    format!("restart after the hostile traffic: node{} {} panicked: {} ({}:{})", nn, what, p.msg.chars().take(140).collect::<String>(), p.file, p.line),
                );
            } else {
                let tip_after = sim.nodes[n].tip();
                let utxo_after = {
                    let bc = block_on(sim.nodes[n].blockchain_lock.read());
                    let mut v: Vec<[u8; 59]> = bc.utxoset.iter().filter(|(_, s)| **s).map(|(k, _)| *k).collect();
                    v.sort();
                    v
                };
                if plan.fresh_victim {
                    r.probe("fresh_node_restarted");
                } else if parentless_delivered && (tip_after != tip_before || utxo_after != utxo_before) {
                    r.violate(ORPHAN_SIG, format!("restart after a parentless block was delivered: tip {} -> {}", tip_before.0, tip_after.0));
                } else if tip_after != tip_before {
                    r.violate("C11|restart|tip-differs", format!("after a restart the node is at tip {} ({}), before it was at {} ({})", tip_after.0, crate::util::hex8(&tip_after.1), tip_before.0, crate::util::hex8(&tip_before.1)));
                } else if utxo_after != utxo_before {
                    r.violate("C11|restart|ledger-differs", format!("after a restart the node is at the same tip {} but its spendable set differs", tip_after.0));
                }
            }
        }
        r.steps = sim.steps;
        r.sim_time_ms = sim.now() - start;
        for (k, v) in sim.fired.iter() {
            r.fault(k, *v);
        }
        if hostile_delivered >= 3 {
            let mut d = Digest::new();
            for m in &plan.moves {
                d.str(&m.k).u64(m.a % 4);
            }
            d.u64(plan.attacker_authenticated as u64);
            r.nontrivial.push(d.get());
        }
        r.schedule_hash = sim.schedule_digest.get();
        trace.u64(sim.schedule_digest.get()).bytes(&sim.nodes[n].tip().1);
        r.state_hash = trace.get();
        r.trace_hash = trace.get();
        r
    }
    fn shrink(&self, plan: &Value) -> Vec<Value> {
        let p: Plan = match serde_json::from_value(plan.clone()) {
            Ok(p) => p,
            Err(_) => return vec![],
        };
        let mut out = vec![];
        if p.moves.len() > 1 {
            let mut q = p.clone();
            q.moves.pop();
            out.push(q);
        }
        for i in 0..p.moves.len() {
            if p.moves.len() > 1 {
                let mut q = p.clone();
                q.moves.remove(i);
                out.push(q);
            }
        }
        if p.depth > 2 {
            let mut q = p.clone();
            q.depth = 2;
            out.push(q);
        }
        out.into_iter().map(|p| serde_json::to_value(p).unwrap()).collect()
    }
}
