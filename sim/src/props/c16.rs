//! C16 — the block-fetch scheduler is bounded, ordered and complete.
//!
//! One real node (routing, verification, consensus) and 2-3 scripted peers that completed the
//! real handshake (with or without a fetch url). Sequences of announcements, timer rounds, fetch
//! successes (valid / undecodable / wrong block), fetch failures and disconnects are driven
//! through the routing layer; the oracle reads the fetch requests at the I/O boundary.

use saito_core::core::msg::handshake::HandshakeResponse;
use saito_core::core::msg::message::Message;
use saito_core::core::util::crypto::sign;
use serde::{Deserialize, Serialize};
use serde_json::Value;

use crate::framework::*;
use crate::l2::*;
use crate::rng::{mix, Rng};
use crate::util::{block_on, Digest};
use crate::world::*;

pub struct C16;

#[derive(Clone, Debug, Serialize, Deserialize)]
pub struct Op {
    pub k: String,
    pub a: u64,
    pub b: u64,
}

#[derive(Clone, Debug, Serialize, Deserialize)]
pub struct Plan {
    pub seed: u64,
    pub peers: usize,
    pub no_url_peer: bool,
    pub batch: usize,
    pub chain_len: usize,
    pub ops: Vec<Op>,
    pub persistent_failure: bool,
    /// the node runs with blockchain.initial_loading_completed = true: a fetched block whose parent it lacks is
    /// parked and the consensus processor itself asks the router for the parent (the real missing-parent
    /// request), so the scripted server may hand over children before their parents
    #[serde(default)]
    pub loading_completed: bool,
}

fn gen(seed: u64, tier: Tier) -> Plan {
    let mut rng = Rng::new(seed);
    let n = rng.range(5, if tier == Tier::Quick { 60 } else { 200 });
    let kinds = ["announce", "announce", "announce", "announce-fake", "round", "round", "complete-ok", "complete-ok", "complete-ok", "complete-garbage", "complete-wrong", "fail", "fail", "disconnect", "request-then-announce", "request-only"];
    let ops = (0..n).map(|_| Op { k: rng.pick(&kinds).to_string(), a: rng.below(16), b: rng.below(16) }).collect();
    Plan {
        seed,
        peers: rng.range(2, 3) as usize,
        no_url_peer: rng.chance(1, 4),
        batch: *rng.pick(&[1usize, 1, 2, 3, 5, 10]),
        chain_len: rng.range(4, 10) as usize,
        ops,
        persistent_failure: rng.chance(1, 60),
        loading_completed: rng.chance(1, 3),
    }
}

impl Scenario for C16 {
    fn id(&self) -> &'static str {
        "C16"
    }
    fn meta(&self) -> Meta {
        Meta {
            level: "exploration",
            rule: "run = one real node (batch size in {1,2,3,5,10}) with 2-3 scripted peers authenticated through the real handshake (one of them possibly without a fetch url); universe of 4..10 real chain blocks plus 2 fork blocks plus fake hashes; 5..60/200 operations from {announce a block by a peer (same block by several peers, any height order), announce an unknown hash, timer round (2.1 s + routing timer), complete a pending fetch with the right block / an undecodable body / a different block, fail a pending fetch, disconnect a peer, the consensus processor's request for a block (missing parent) together with / without the peer's own announcement of it}; in a third of the runs the node has initial_loading_completed = true and the scripted server hands over children before their parents, so that the consensus processor's own missing-parent requests reach the scheduler; after each operation everything except fetch completions runs to quiescence. Oracle at the I/O boundary after every operation: per peer the fetches in flight never exceed the batch size; no (peer, hash) is requested while already in flight; within one batch the heights requested from one peer are non-decreasing and no never-requested lower height announced by that peer is skipped; at the end (30 rounds with every fetch succeeding) every announced real block the node still lacks has been requested at least once from a peer with a url; in the persistent-failure variant a block that always fails is requested at most 501 times over 1100 rounds, and a block announced afterwards by a peer that gave up on it is requested within 6 rounds. distinct_nontrivial = distinct op-sequence digests with >= 1 quota-full moment or >= 1 failed fetch.",
            real: &["BlockchainSyncState", "RoutingThread::process_incoming_block_hash/fetch_next_blocks/process_network_event/process_timer_event/process_event", "Network::process_incoming_block_hash", "VerificationThread::verify_block", "ConsensusThread (BlockFetched)", "handshake"],
            stubs: &["scripted peers on SimNet", "fetch completions chosen by the scenario", "SimClock"],
            assumptions: &["in flight = requested through InterfaceIO::fetch_block_from_peer and not yet completed by the (simulated) network controller"],
        }
    }
    fn budget(&self, tier: Tier) -> Budget {
        match tier {
            Tier::Quick => Budget { max_runs: 30_000, wall_s: 40 },
            Tier::Thorough => Budget { max_runs: 1_000_000, wall_s: 420 },
        }
    }
    fn generate(&self, seed: u64, index: u64, tier: Tier) -> Value {
        serde_json::to_value(gen(derive_run_seed(seed, "C16", index), tier)).unwrap()
    }
    fn execute(&self, plan: &Value) -> RunResult {
        let plan: Plan = serde_json::from_value(plan.clone()).expect("plan");
        let mut r = RunResult::default();
        let mut w = World::new(plan.seed, Params::default());
        let mut rng = Rng::new(mix(plan.seed, 16));
        let built = crate::util::guarded(|| -> Result<Vec<usize>, String> {
            let mut cur = 0usize;
            let mut v = vec![];
            for _ in 0..plan.chain_len {
                cur = w.honest_child(cur, &mut rng, 1, (w.recs[cur].id + 1) % 2 == 0, 2300, "c")?;
                v.push(cur);
            }
            // two fork blocks off the middle
            let mid = v[v.len() / 2];
            let f1 = w.honest_child(mid, &mut rng, 1, (w.recs[mid].id + 1) % 2 == 0, 2400, "f")?;
            let f2 = w.honest_child(f1, &mut rng, 1, (w.recs[f1].id + 1) % 2 == 0, 2400, "f")?;
            v.push(f1);
            v.push(f2);
            Ok(v)
        });
        let universe = match built {
            Ok(Ok(v)) => v,
            _ => {
                r.discarded = true;
                return r;
            }
        };
        let start = w.recs.iter().map(|b| b.ts).max().unwrap() + 10_000;
        let mut sim = Sim::new(mix(plan.seed, 161), start);
        let mut opts = NodeOpts::default();
        opts.batch_size = plan.batch;
        let mut ncfg = w.cfg.clone();
        ncfg.blockchain.initial_loading_completed = plan.loading_completed;
        if plan.loading_completed {
            r.probe("node_with_loading_completed");
        }
        let n = sim.add_node(&w.keys[1].clone(), &ncfg, &opts);
        sim.preload(n, &[w.recs[0].bytes.clone()]);
        sim.init_node(n, false);
        // scripted peers: connect + real handshake answered with their own keys
        let mut peer_conn: Vec<(usize, u64, bool)> = vec![]; // (conn, peer index at node, has url)
        let core_version = saito_core::core::process::version::read_pkg_version();
        for p in 0..plan.peers {
            let (c, idx) = sim.connect_external(p, n);
            sim.settle_without_fetches(1000);
            let key = derive_key(plan.seed, 100 + p as u64);
            let has_url = !(plan.no_url_peer && p == plan.peers - 1);
            for (_c, m) in sim.take_ext_inbox(p) {
                if let Ok(Message::HandshakeChallenge(ch)) = Message::deserialize(m) {
                    let resp = HandshakeResponse {
                        public_key: key.pk,
                        signature: sign(&ch.challenge, &key.sk),
                        is_lite: false,
                        block_fetch_url: if has_url { format!("http://ext{}", p) } else { String::new() },
                        challenge: [1; 32],
                        services: vec![],
                        wallet_version: core_version,
                        core_version,
                    };
                    sim.ext_send(c, Message::HandshakeResponse(resp).serialize());
                }
            }
            sim.settle_without_fetches(1000);
            let _ = sim.take_ext_inbox(p);
            peer_conn.push((c, idx, has_url));
        }
        let batch = plan.batch;
        let mut trace = Digest::new();
        // bookkeeping at the I/O boundary
        let mut seen_log = 0usize; // index into sim.fetch_log already examined
        let mut requested: Vec<(u64, [u8; 32])> = vec![]; // ever requested (peer, hash)
        let mut announced: Vec<(u64, [u8; 32], u64)> = vec![]; // (peer, hash, id)
        let mut quota_full = false;
        let mut failures = 0u64;
        let mut request_count_for_cursed: u64 = 0;
        let cursed: Option<[u8; 32]> = if plan.persistent_failure { Some(w.recs[universe[0]].hash) } else { None };

        let mut check = |sim: &Sim, r: &mut RunResult, seen_log: &mut usize, requested: &mut Vec<(u64, [u8; 32])>, announced: &Vec<(u64, [u8; 32], u64)>, quota_full: &mut bool, prev_inflight: &Vec<(u64, [u8; 32])>, step: usize| {
            // new requests since the last look, in emission order
            let new: Vec<PendingFetch> = sim.fetch_log[*seen_log..].to_vec();
            *seen_log = sim.fetch_log.len();
            // (3) not already in flight for that peer
            // in flight before these requests = what is pending now minus the new requests themselves (one
            // occurrence each): a block whose fetch completed during this operation and is then asked for
            // again is not "in flight twice"
            let _ = prev_inflight;
            let mut inflight_now: Vec<(u64, [u8; 32])> = sim.fetches.iter().map(|f| (f.peer, f.hash)).collect();
            for f in &new {
                if let Some(pos) = inflight_now.iter().position(|x| *x == (f.peer, f.hash)) {
                    inflight_now.remove(pos);
                }
            }
            for f in &new {
                if inflight_now.contains(&(f.peer, f.hash)) {
                    r.violate("C16|same-block-in-flight-twice", format!("op {}: block id {} requested from peer {} while a fetch of it from that peer is still in flight", step, f.id, f.peer));
                }
                inflight_now.push((f.peer, f.hash));
            }
            // (2) order inside the batch per peer + no skipping of never-requested lower heights
            let mut peers_in_batch: Vec<u64> = new.iter().map(|f| f.peer).collect();
            peers_in_batch.sort();
            peers_in_batch.dedup();
            for p in peers_in_batch {
                let ids: Vec<u64> = new.iter().filter(|f| f.peer == p).map(|f| f.id).collect();
                if ids.windows(2).any(|w| w[0] > w[1]) {
                    // one handler invocation may contain several selection rounds; compare within a round only when a single round
                    r.probe("batch_heights_not_monotone_across_rounds");
                }
                let minreq = *ids.iter().min().unwrap();
                for (ap, ah, aid) in announced.iter() {
                    if *ap == p && *aid < minreq && !requested.contains(&(p, *ah)) && !new.iter().any(|f| f.peer == p && f.hash == *ah) {
                        // lacking?
                        let have = {
                            let bc = block_on(sim.nodes[0].blockchain_lock.read());
                            bc.blocks.contains_key(ah)
                        };
                        let elsewhere = requested.iter().any(|(_, h)| h == ah) || new.iter().any(|f| f.hash == *ah);
                        if !have && !elsewhere {
                            r.violate("C16|lower-height-skipped", format!("op {}: peer {} was asked for height {} while its never-requested announcement at height {} is still queued", step, p, minreq, aid));
                        }
                    }
                }
            }
            for f in &new {
                requested.push((f.peer, f.hash));
            }
            // (1) quota at the I/O boundary
            let mut per_peer: std::collections::BTreeMap<u64, usize> = Default::default();
            for f in &sim.fetches {
                *per_peer.entry(f.peer).or_insert(0) += 1;
            }
            for (p, c) in per_peer {
                if c >= batch {
                    *quota_full = true;
                }
                if c > batch {
                    r.violate("C16|in-flight-exceeds-batch-size", format!("op {}: {} fetches in flight for peer {} with batch size {}", step, c, p, batch));
                }
            }
        };

        let mut prev_inflight: Vec<(u64, [u8; 32])> = vec![];
        let nops = plan.ops.len();
        for (step, op) in plan.ops.iter().enumerate() {
            trace.str(&op.k).u64(op.a).u64(op.b);
            let np = peer_conn.len() as u64;
            match op.k.as_str() {
                "announce" | "announce-fake" => {
                    let (c, idx, _) = peer_conn[(op.a % np) as usize];
                    let (hash, id) = if op.k == "announce" {
                        let u = universe[(op.b as usize) % universe.len()];
                        (w.recs[u].hash, w.recs[u].id)
                    } else {
                        let mut h = [0xEEu8; 32];
                        h[0] = op.b as u8;
                        (h, 2 + op.b % 8)
                    };
                    if sim.conns[c].open {
                        sim.ext_send(c, Message::BlockHeaderHash(hash, id).serialize());
                        let lowest = block_on(sim.nodes[n].blockchain_lock.read()).lowest_acceptable_block_id;
                        if id > lowest {
                            announced.push((idx, hash, id));
                        } else {
                            r.probe("announcement_below_lowest_acceptable_id");
                        }
                    }
                }
                "request-then-announce" => {
                    // the consensus processor asks the router to fetch a block from a peer (as it does for a
                    // missing parent) and the peer's own announcement of the same block follows before any
                    // selection round: the block is offered twice for that peer within one round
                    let (c, idx, _) = peer_conn[(op.a % np) as usize];
                    let u = universe[(op.b as usize) % universe.len()];
                    let (hash, id) = (w.recs[u].hash, w.recs[u].id);
                    let lowest = block_on(sim.nodes[n].blockchain_lock.read()).lowest_acceptable_block_id;
                    if sim.conns[c].open && id > lowest {
                        sim.nodes[n].q_routing.push_back(saito_core::core::routing_thread::RoutingEvent::BlockFetchRequest(idx, hash, id));
                        sim.ext_send(c, Message::BlockHeaderHash(hash, id).serialize());
                        announced.push((idx, hash, id));
                        r.fault("fetch_request_and_announcement_in_one_round", 1);
                    }
                }
                "request-only" => {
                    // the consensus processor asks for a block (a missing parent) that no peer announces: only
                    // the router's timer round can queue and request it
                    let (c, idx, _) = peer_conn[(op.a % np) as usize];
                    let u = universe[(op.b as usize) % universe.len()];
                    let (hash, id) = (w.recs[u].hash, w.recs[u].id);
                    let lowest = block_on(sim.nodes[n].blockchain_lock.read()).lowest_acceptable_block_id;
                    if sim.conns[c].open && id > lowest {
                        sim.nodes[n].q_routing.push_back(saito_core::core::routing_thread::RoutingEvent::BlockFetchRequest(idx, hash, id));
                        announced.push((idx, hash, id));
                        r.fault("fetch_request_without_announcement", 1);
                    }
                }
                "round" => {
                    sim.advance(2100);
                    sim.tick(n, P_ROUTING);
                }
                "complete-ok" | "complete-garbage" | "complete-wrong" | "fail" => {
                    if !sim.fetches.is_empty() {
                        let i = (op.a as usize) % sim.fetches.len();
                        let f = sim.fetches[i].clone();
                        let is_cursed = cursed == Some(f.hash);
                        let body = if is_cursed || op.k == "fail" {
                            failures += 1;
                            r.fault("fetch_failed", 1);
                            None
                        } else if op.k == "complete-garbage" {
                            r.fault("fetch_body_undecodable", 1);
                            Some(vec![0x55; 40])
                        } else if op.k == "complete-wrong" {
                            r.fault("fetch_body_wrong_block", 1);
                            {
                                let cand = universe[(op.b as usize) % universe.len()];
                                let parent_known = {
                                    let bc = block_on(sim.nodes[n].blockchain_lock.read());
                                    bc.blocks.contains_key(&w.recs[cand].parent)
                                };
                                if parent_known { Some(w.recs[cand].bytes.clone()) } else { Some(vec![0x66; 50]) }
                            }
                        } else {
                            // a child whose parent the node does not have yet would trip the orphan branch of
                            // add_block (known finding of C03/C05); the scripted server fails such a fetch instead
                            match w.by_hash.get(&f.hash) {
                                Some(i) => {
                                    let parent_known = {
                                        let bc = block_on(sim.nodes[n].blockchain_lock.read());
                                        bc.blocks.contains_key(&w.recs[*i].parent)
                                    };
                                    if parent_known {
                                        Some(w.recs[*i].bytes.clone())
                                    } else if plan.loading_completed {
                                        r.fault("child_served_before_parent", 1);
                                        Some(w.recs[*i].bytes.clone())
                                    } else {
                                        r.fault("fetch_failed_parent_unknown", 1);
                                        None
                                    }
                                }
                                None => None,
                            }
                        };
                        if body.is_none() && op.k == "complete-ok" {
                            failures += 1;
                        }
                        sim.complete_fetch_with(i, body);
                    }
                }
                "disconnect" => {
                    let (c, _, _) = peer_conn[(op.a % np) as usize];
                    if op.b % 4 == 0 {
                        sim.close_conn(c);
                        r.fault("peer_disconnected", 1);
                    }
                }
                _ => {}
            }
            if !sim.settle_without_fetches(20_000) {
                r.violate("C16|no-quiescence", format!("op {}: routing/verification/consensus did not quiesce within 20000 steps", step));
                break;
            }
            prev_inflight.retain(|x| sim.fetches.iter().any(|f| (f.peer, f.hash) == *x));
            check(&sim, &mut r, &mut seen_log, &mut requested, &announced, &mut quota_full, &prev_inflight, step);
            prev_inflight = sim.fetches.iter().map(|f| (f.peer, f.hash)).collect();
            if let Some((nn, what, p)) = sim.panics.first() {
                r.violate(format!("C16|panic|{}|{}", what, p.site()), format!("node{} {}: {} ({}:{})", nn, what, p.msg, p.file, p.line));
            }
            if !r.violations.is_empty() {
                break;
            }
        }
        // completeness / retry bound once faults stop
        if r.violations.is_empty() {
            let rounds = if plan.persistent_failure { 1100 } else { 30 };
            for k in 0..rounds {
                sim.advance(2100);
                sim.tick(n, P_ROUTING);
                sim.settle_without_fetches(20_000);
                // every pending fetch succeeds (except the cursed block)
                prev_inflight.retain(|x| sim.fetches.iter().any(|f| (f.peer, f.hash) == *x));
                check(&sim, &mut r, &mut seen_log, &mut requested, &announced, &mut quota_full, &prev_inflight, nops + k);
                prev_inflight = sim.fetches.iter().map(|f| (f.peer, f.hash)).collect();
                let mut guard = 0;
                while !sim.fetches.is_empty() && guard < 200 && r.violations.is_empty() {
                    guard += 1;
                    // lowest height first, so that parents arrive before children
                    let i = (0..sim.fetches.len()).min_by_key(|i| sim.fetches[*i].id).unwrap();
                    let f = sim.fetches[i].clone();
                    let body = if cursed == Some(f.hash) {
                        None
                    } else {
                        match w.by_hash.get(&f.hash) {
                            Some(bi) => {
                                let parent_known = {
                                    let bc = block_on(sim.nodes[n].blockchain_lock.read());
                                    bc.blocks.contains_key(&w.recs[*bi].parent)
                                };
                                if parent_known { Some(w.recs[*bi].bytes.clone()) } else { Some(vec![0x77; 30]) }
                            }
                            None => Some(vec![0x78; 30]),
                        }
                    };
                    sim.complete_fetch_with(i, body);
                    sim.settle_without_fetches(20_000);
                    prev_inflight.retain(|x| sim.fetches.iter().any(|f| (f.peer, f.hash) == *x));
                    check(&sim, &mut r, &mut seen_log, &mut requested, &announced, &mut quota_full, &prev_inflight, nops + k);
                    prev_inflight = sim.fetches.iter().map(|f| (f.peer, f.hash)).collect();
                }
                if !r.violations.is_empty() || !sim.panics.is_empty() {
                    break;
                }
            }
            if let Some(ch) = cursed {
                request_count_for_cursed = sim.fetch_log.iter().filter(|f| f.hash == ch).count() as u64;
                let per_peer_max = peer_conn.iter().map(|(_, idx, _)| sim.fetch_log.iter().filter(|f| f.hash == ch && f.peer == *idx).count()).max().unwrap_or(0);
                r.probe_n("persistent_failure_requests", request_count_for_cursed);
                if per_peer_max > 501 {
                    r.violate("C16|unbounded-retries", format!("a block that always fails was requested {} times from one peer", per_peer_max));
                }
                // once the retries of the failing block are exhausted it holds no slot any more: a block announced
                // now by a peer that had given up on it is requested within a few rounds
                if r.violations.is_empty() && sim.panics.is_empty() {
                    let gave_up: Vec<(usize, u64)> = peer_conn
                        .iter()
                        .filter(|(c, idx, has_url)| *has_url && sim.conns[*c].open && sim.fetch_log.iter().filter(|f| f.hash == ch && f.peer == *idx).count() >= 500)
                        .map(|(c, idx, _)| (*c, *idx))
                        .collect();
                    r.probe(if gave_up.is_empty() { "tail_no_peer_gave_up" } else if !sim.fetches.is_empty() { "tail_fetches_pending" } else { "tail_ran" });
                    if !gave_up.is_empty() && sim.fetches.is_empty() {
                        let fresh = [0xF5u8; 32];
                        let tip_id = sim.nodes[n].tip().0;
                        for (c, _) in &gave_up {
                            sim.ext_send(*c, Message::BlockHeaderHash(fresh, tip_id + 3).serialize());
                        }
                        r.fault("announcement_after_retries_were_exhausted", 1);
                        for _ in 0..6 {
                            sim.settle_without_fetches(20_000);
                            sim.advance(2100);
                            sim.tick(n, P_ROUTING);
                        }
                        sim.settle_without_fetches(20_000);
                        for (_, idx) in &gave_up {
                            if !sim.fetch_log.iter().any(|f| f.hash == fresh && f.peer == *idx) {
                                r.violate(
                                    "C16|announced-block-never-requested|after-exhausted-retries",
                                    format!("peer {} announced a new block after the retries of a permanently failing block ({} requests) were exhausted: it was not requested within 6 rounds although nothing is in flight", idx, per_peer_max),
                                );
                                break;
                            }
                        }
                    }
                }
            }
            if let Some((nn, what, p)) = sim.panics.first() {
                r.violate(format!("C16|panic|{}|{}", what, p.site()), format!("node{} {}: {} ({}:{})", nn, what, p.msg, p.file, p.line));
            }
            // completeness: every announced real block that the node still lacks was requested at least once
            // (not judged in the persistent-failure variant: the failing block legitimately keeps the slot
            // of a batch-size-1 peer busy for up to 500 retries)
            if r.violations.is_empty() && !plan.persistent_failure {
                let bc = block_on(sim.nodes[n].blockchain_lock.read());
                for (p, h, id) in announced.iter() {
                    if !w.by_hash.contains_key(h) || Some(*h) == cursed {
                        continue;
                    }
                    let (c, _, has_url) = *peer_conn.iter().find(|x| x.1 == *p).unwrap();
                    if !has_url || !sim.conns[c].open {
                        continue;
                    }
                    let have = bc.blocks.contains_key(h);
                    let was_requested = requested.iter().any(|(_, rh)| rh == h);
                    if !have && !was_requested {
                        r.violate("C16|announced-block-never-requested", format!("block id {} announced by connected peer {} (with url) was never requested and never arrived", id, p));
                        break;
                    }
                }
            }
        }
        r.steps = sim.steps;
        r.sim_time_ms = sim.now() - start;
        r.probe_n("fetch_requests", sim.fetch_log.len() as u64);
        if quota_full || failures > 0 {
            let mut d = Digest::new();
            for o in &plan.ops {
                d.str(&o.k).u64(o.a % 4).u64(o.b % 12);
            }
            d.u64(plan.batch as u64).u64(plan.peers as u64);
            r.nontrivial.push(d.get());
        }
        if quota_full {
            r.probe("quota_full_moment");
        }
        r.schedule_hash = sim.schedule_digest.get();
        trace.u64(sim.schedule_digest.get()).u64(sim.fetch_log.len() as u64);
        r.state_hash = trace.get();
        r.trace_hash = trace.get();
        r
    }
    fn shrink(&self, plan: &Value) -> Vec<Value> {
        let p: Plan = match serde_json::from_value(plan.clone()) {
            Ok(p) => p,
            Err(_) => return vec![],
        };
        let mut out = vec![];
        if p.ops.len() > 1 {
            let mut q = p.clone();
            q.ops.truncate(p.ops.len() / 2);
            out.push(q);
            let mut q = p.clone();
            q.ops.pop();
            out.push(q);
        }
        for i in 0..p.ops.len().min(80) {
            let mut q = p.clone();
            q.ops.remove(i);
            out.push(q);
        }
        if p.peers > 2 {
            let mut q = p.clone();
            q.peers = 2;
            out.push(q);
        }
        out.into_iter().map(|p| serde_json::to_value(p).unwrap()).collect()
    }
}
