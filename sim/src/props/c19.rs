//! C19 — wallet accounting matches the ledger.
//!
//! A node whose wallet key receives payments, builds transactions through the real
//! Transaction::create / create_with_multiple_payments (arbitrary amount / fee incl. more than
//! the balance, zero, exact), sees them confirmed, dropped, un-confirmed by a reorganisation,
//! and crosses the retention window (rebroadcast outputs come back to the wallet).

use saito_core::core::consensus::slip::SlipType;
use saito_core::core::consensus::transaction::Transaction;
use serde::{Deserialize, Serialize};
use serde_json::Value;

use crate::framework::*;
use crate::rng::{mix, Rng};
use crate::util::{block_on, Digest};
use crate::world::*;

pub struct C19;

#[derive(Clone, Debug, Serialize, Deserialize)]
pub struct Op {
    pub k: String,
    pub a: u64,
    pub b: u64,
}

#[derive(Clone, Debug, Serialize, Deserialize)]
pub struct Plan {
    pub seed: u64,
    pub gp: u64,
    pub ops: Vec<Op>,
    /// block bodies older than this many blocks are dropped from memory (reloaded from disk when a
    /// reorganisation unwinds them)
    #[serde(default = "default_prune")]
    pub prune_after: u64,
    /// staking family: the wallet of a block producer under social staking, driven at its own interface: blocks
    /// that pay it ordinary and stake-typed outputs (through Wallet::on_chain_reorganization) and staking
    /// transactions of varying size built with Wallet::create_staking_transaction (the requirement is a
    /// configuration value and may differ from the size of the stakes made earlier)
    #[serde(default)]
    pub staking: bool,
}

fn default_prune() -> u64 {
    8
}

pub const KINDS: &[&str] = &["receive", "receive", "spend", "spend", "spend-multi", "spend-all", "spend-too-much", "spend-zero", "block-confirm", "block-confirm", "block-plain", "block-drop", "reorg", "re-add-slip"];

fn gen(seed: u64, tier: Tier) -> Plan {
    let mut rng = Rng::new(seed);
    let n = rng.range(5, if tier == Tier::Quick { 40 } else { 150 });
    Plan {
        seed,
        gp: *rng.pick(&[4u64, 5, 6, 8, 100, 100]),
        ops: (0..n).map(|_| Op { k: rng.pick(KINDS).to_string(), a: rng.below(64), b: rng.below(64) }).collect(),
        prune_after: *rng.pick(&[1u64, 2, 3, 8]),
        staking: rng.chance(1, 10),
    }
}

const WK: usize = 1; // wallet key index

fn check_internal(r: &mut RunResult, n: &Node, step: usize, what: &str) {
    let w = block_on(n.wallet.read());
    let mut sum: u128 = 0;
    for k in w.unspent_slips.iter() {
        match w.slips.get(k) {
            Some(s) => sum += s.amount as u128,
            None => {
                r.violate("C19|unspent-slip-not-in-slips", format!("step {} ({}): an unspent slip key is missing from the slip table", step, what));
                return;
            }
        }
    }
    if sum != w.get_available_balance() as u128 {
        r.violate(
            format!("C19|balance-differs-from-unspent-sum|{}", what),
            format!("step {} ({}): available balance {} but unspent slips sum to {}", step, what, w.get_available_balance(), sum),
        );
    }
}

/// see Plan::staking
fn staking_family(plan: &Plan) -> RunResult {
    use saito_core::core::consensus::block::Block;
    use saito_core::core::consensus::slip::Slip;
    use saito_core::core::consensus::wallet::Wallet;
    let mut r = RunResult::default();
    let key = derive_key(plan.seed, 1);
    let other = derive_key(plan.seed, 2);
    let mut wal = Wallet::new(key.sk, key.pk);
    let mut block_id = 1u64;
    let mut trace = Digest::new();
    let mut stakes = 0u64;
    let mut mixed = 0u64;
    let check = |r: &mut RunResult, wal: &Wallet, step: usize, what: &str| {
        let mut sum: u128 = 0;
        for k in wal.unspent_slips.iter() {
            match wal.slips.get(k) {
                Some(s) => sum += s.amount as u128,
                None => {
                    r.violate("C19|unspent-slip-not-in-slips", format!("staking family, step {} ({}): an unspent slip key is missing from the slip table", step, what));
                    return;
                }
            }
        }
        if sum != wal.get_available_balance() as u128 {
            r.violate(
                format!("C19|balance-differs-from-unspent-sum|{}", what),
                format!("staking family, step {} ({}): available balance {} but unspent slips sum to {}", step, what, wal.get_available_balance(), sum),
            );
        }
    };
    for (oi, op) in plan.ops.iter().enumerate() {
        let step = oi + 1;
        trace.str(&op.k).u64(op.a).u64(op.b);
        if op.a % 5 < 2 {
            // a block paying the wallet: 1-3 ordinary outputs, and (every other time) a stake-typed one
            block_id += 1;
            let mut tx = Transaction::default();
            tx.timestamp = block_id;
            for j in 0..(1 + op.b % 3) {
                let mut o = Slip::default();
                o.public_key = key.pk;
                o.amount = 1_000 + (op.b + 1) * 137 * (j + 1);
                tx.add_to_slip(o);
            }
            if op.a % 5 == 1 {
                let mut o = Slip::default();
                o.public_key = key.pk;
                o.amount = 5_000 + (op.b % 5) * 2_500;
                o.slip_type = SlipType::BlockStake;
                tx.add_to_slip(o);
            }
            tx.sign(&other.sk);
            tx.generate(&key.pk, 0, block_id);
            let mut b = Block::new();
            b.id = block_id;
            b.transactions.push(tx);
            wal.on_chain_reorganization(&b, true, 100_000);
            check(&mut r, &wal, step, "receive");
        } else {
            let amount = 5_000 + (op.b % 7) * 2_500;
            let unlocked = block_id.saturating_sub(op.a % 3);
            let staking_before: u128 = wal.staking_slips.iter().filter_map(|k| wal.slips.get(k)).filter(|s| s.block_id <= unlocked).map(|s| s.amount as u128).sum();
            let normal_before = wal.get_available_balance();
            // outputs of blocks below this id are handled by the rebroadcast pass of the block the stake is made
            // for: the wallet must not select them, neither as stake outputs nor for the top-up
            let last_valid = if op.b % 2 == 0 { 0 } else { block_id.saturating_sub(1 + op.a % 4) };
            match wal.create_staking_transaction(amount, unlocked, last_valid) {
                Ok(tx) => {
                    stakes += 1;
                    if let Some(old) = tx.from.iter().find(|s| s.amount > 0 && s.block_id < last_valid) {
                        r.violate(
                            "C19|built-tx|stake-spends-expiring-output",
                            format!("staking family, step {}: the staking transaction spends an output of block {} although outputs below block {} are no longer spendable in the staked block", step, old.block_id, last_valid),
                        );
                    }
                    if staking_before > 0 && staking_before < amount as u128 {
                        mixed += 1;
                    }
                    let mut keys: Vec<[u8; 59]> = tx.from.iter().map(|s| s.utxoset_key).collect();
                    let n = keys.len();
                    keys.sort();
                    keys.dedup();
                    if keys.len() != n {
                        r.violate("C19|built-tx|same-output-twice", format!("staking family, step {}: the staking transaction references the same output twice", step));
                    }
                    let tin: u128 = tx.from.iter().map(|s| s.amount as u128).sum();
                    let tout: u128 = tx.to.iter().map(|s| s.amount as u128).sum();
                    if tout > tin {
                        r.violate("C19|built-tx|spends-more-than-it-consumes|stake", format!("staking family, step {}: staking transaction pays out {} but consumes {}", step, tout, tin));
                    }
                    if tx.to.first().map(|s| (s.slip_type, s.amount)) != Some((SlipType::BlockStake, amount)) {
                        r.violate("C19|built-tx|stake-output-wrong", format!("staking family, step {}: first output is not a stake of {}", step, amount));
                    }
                }
                Err(_) => {
                    r.probe("wallet_declined_to_stake");
                    if wal.get_available_balance() != normal_before {
                        r.violate("C19|balance-changed-by-declined-stake", format!("staking family, step {}: a declined staking request changed the balance from {} to {}", step, normal_before, wal.get_available_balance()));
                    }
                }
            }
            check(&mut r, &wal, step, "stake");
        }
        if !r.violations.is_empty() {
            break;
        }
        r.steps += 1;
    }
    r.fault("stake_from_stake_and_ordinary_outputs", mixed);
    r.probe_n("staking_transactions", stakes);
    if stakes > 0 {
        let mut d = Digest::new();
        for o in &plan.ops {
            d.str("s").u64(o.a % 5).u64(o.b % 7);
        }
        r.nontrivial.push(d.get());
    }
    r.state_hash = trace.get();
    r.trace_hash = trace.get();
    r
}

impl Scenario for C19 {
    fn id(&self) -> &'static str {
        "C19"
    }
    fn meta(&self) -> Meta {
        Meta {
            level: "exploration",
            rule: "run = producer chain (genesis period in {4,5,6,8,100}) and a wallet node (real Blockchain + Wallet) that receives every block; 5..40/150 operations from {block paying the wallet key, wallet builds a payment with random amount and fee through Transaction::create, multi-payment, spend everything, ask for more than the balance, zero payment, next block includes the pending wallet transactions, plain block, block that ignores them, a slip the wallet already holds handed to it again, competing fork of depth 1 .. prune depth + 2 that replaces the last blocks (reorganisation, ends the strict ledger comparison as the property states it for chains without one; block bodies older than the prune depth in {1, 2, 3, 8} are dropped from memory, so the deeper reorganisations unwind blocks that must be read back from the simulated disk)}. After every operation: available balance == sum of unspent slips and every unspent key is in the slip table; while no reorganisation happened: the wallet's unspent set == the reference ledger's in-window spendable outputs of the key minus the inputs of wallet-built transactions that are not confirmed; every wallet-built transaction has distinct inputs, outputs <= inputs in u128, and validates against the ledger it was built on. At the end of every run a fresh wallet is filled through Wallet::update_from_balance_snapshot from the node's Blockchain::get_balance_snapshot for the key (the restore path of lite / browser wallets): it must list exactly the ledger's in-window outputs of the key, and a transaction spending its whole balance must validate. One run in ten is the staking family: the wallet of a staking block producer at its own interface - blocks paying it ordinary and stake-typed outputs (Wallet::on_chain_reorganization) and staking transactions of 5000..20000 built with Wallet::create_staking_transaction against stakes of other sizes (the requirement is configuration), so that stakes are assembled from unlocked stake outputs topped up with ordinary ones; the balance/unspent clause and the built-transaction clauses apply. distinct_nontrivial = distinct event sequences with >= 1 spend and >= 1 receive.",
            real: &["Wallet::on_chain_reorganization/add_slip/delete_slip/remove_old_slips/generate_slips", "Transaction::create/create_with_multiple_payments/sign/validate", "Blockchain::add_block (wind/unwind drive the wallet)"],
            stubs: &["SimIo", "SimConfig", "producer chain builder"],
            assumptions: &["NFTs are not generated; staking only in the wallet-interface family", "a dropped wallet transaction keeps its inputs committed (the property subtracts pending inputs)"],
        }
    }
    fn budget(&self, tier: Tier) -> Budget {
        match tier {
            Tier::Quick => Budget { max_runs: 20_000, wall_s: 40 },
            Tier::Thorough => Budget { max_runs: 1_000_000, wall_s: 420 },
        }
    }
    fn generate(&self, seed: u64, index: u64, tier: Tier) -> Value {
        serde_json::to_value(gen(derive_run_seed(seed, "C19", index), tier)).unwrap()
    }
    fn execute(&self, plan: &Value) -> RunResult {
        let plan: Plan = serde_json::from_value(plan.clone()).expect("plan");
        if plan.staking {
            return staking_family(&plan);
        }
        let mut r = RunResult::default();
        let params = Params { genesis_period: plan.gp, heartbeat: 1000, n_users: 3, slips_per_user: 3, base_amount: 1_000_000 };
        let mut rng = Rng::new(mix(plan.seed, 19));
        let mut c = match crate::util::guarded(|| Chain::new(plan.seed, params.clone(), plan.prune_after)) {
            Ok(Ok(c)) => c,
            _ => {
                r.discarded = true;
                return r;
            }
        };
        let wkey = c.keys[WK].clone();
        let mut wn = Node::new(&c.cfg, &wkey);
        let _ = wn.add_block_bytes(&c.recs[0].bytes.clone());
        let mut trace = Digest::new();
        let mut pending: Vec<Transaction> = vec![]; // wallet-built, not yet confirmed
        let mut strict = true; // until the first reorganisation
        let mut spends = 0u64;
        let mut receives = 0u64;
        let gp = plan.gp;
        check_internal(&mut r, &wn, 0, "genesis");

        let mut produce = |c: &mut Chain, wn: &mut Node, r: &mut RunResult, txs: Vec<Transaction>, rng: &mut Rng| -> bool {
            let mut txs = txs;
            if txs.is_empty() {
                let tag = c.tag();
                let ts = c.tip_rec().ts + tag;
                txs.push(make_tx(&c.keys[3].clone(), &[], &[(c.keys[3].pk, 0)], ts, &tag.to_le_bytes()));
            }
            let tip_hash = c.tip_rec().hash;
            let want = c.tip_rec().id % 2 == 1;
            let gt = want || !c.node.bc.is_golden_ticket_count_valid(tip_hash, want, false, false);
            let dt = 2100 + rng.below(400);
            match crate::util::guarded(|| c.extend(txs, gt, dt)) {
                Ok(Ok(i)) => {
                    let bytes = c.recs[i].bytes.clone();
                    match crate::util::guarded(|| wn.add_block_bytes(&bytes)) {
                        Ok(Some(x)) if outcome_of(&x) == (AddOutcome::Added { longest: true }) => true,
                        Ok(_) => {
                            r.probe("wallet_node_refused_block");
                            false
                        }
                        Err(p) => {
                            r.violate(format!("C19|panic|{}", p.site()), format!("{} ({}:{})", p.msg, p.file, p.line));
                            false
                        }
                    }
                }
                Ok(Err(_)) => {
                    r.probe("producer_refused_own_block");
                    false
                }
                Err(p) => {
                    if std::env::var("VERIF_DEBUG").is_ok() {
                        for rec in c.recs.iter().rev().take(6).rev() {
                            eprintln!("block {} :", rec.id);
                            for t in &rec.txs {
                                eprintln!("   {:?} in {:?} out {:?}", t.ttype, t.inputs.iter().map(|s| (s.block_id, s.tx_ordinal, s.slip_index, s.amount, slip_type_code(s.stype))).collect::<Vec<_>>(), t.outputs.iter().map(|s| (s.amount, slip_type_code(s.stype), s.pk[1])).collect::<Vec<_>>());
                            }
                        }
                    }
                    r.violate(format!("C19|panic|{}", p.site()), format!("{} ({}:{})", p.msg, p.file, p.line));
                    false
                }
            }
        };

        for (oi, op) in plan.ops.iter().enumerate() {
            let step = oi + 1;
            trace.str(&op.k).u64(op.a).u64(op.b);
            let mut ok = true;
            match op.k.as_str() {
                "receive" => {
                    // another user pays the wallet key
                    let payer = 2 + (op.a as usize % 2);
                    let pend_in: Vec<UtxoKey> = vec![];
                    if let Some((t, _)) = c.payment(payer, WK, op.b as usize, (op.b * 37) % 500, 0, &pend_in) {
                        let mut txs = vec![t];
                        if op.a % 3 == 0 {
                            // the block also carries an ordinary transaction whose (signed, unvalidated) header
                            // field txs_replacements is not 1: ledger ordinals do not care, nor may the wallet
                            let tag = c.tag();
                            let ts = c.tip_rec().ts + tag;
                            let mut f = make_tx(&c.keys[3].clone(), &[], &[(c.keys[3].pk, 0)], ts, &tag.to_le_bytes());
                            f.txs_replacements = 2 + (op.b % 3) as u32;
                            f.sign(&c.keys[3].sk);
                            txs.insert(0, f);
                            r.fault("ordinary_tx_with_replacement_count", 1);
                        }
                        ok = produce(&mut c, &mut wn, &mut r, txs, &mut rng);
                        receives += 1;
                    }
                }
                k if k.starts_with("spend") => {
                    let (balance, latest) = {
                        let w = block_on(wn.wallet.read());
                        (w.get_available_balance(), wn.bc.get_latest_block_id())
                    };
                    let (amount, fee) = match k {
                        "spend-all" => (balance, 0),
                        "spend-too-much" => (balance.saturating_add(1 + op.a), op.b),
                        "spend-zero" => (0, 0),
                        _ => ((balance / 64) * (op.a % 64), (op.b * 101) % (balance / 50 + 1)),
                    };
                    let to = c.keys[2].pk;
                    let built = {
                        let mut w = block_on(wn.wallet.write());
                        if k == "spend-multi" {
                            Transaction::create_with_multiple_payments(&mut w, vec![to, c.keys[3].pk], vec![amount / 2, amount - amount / 2], fee, None, latest, gp)
                        } else {
                            Transaction::create(&mut w, to, amount, fee, false, None, latest, gp)
                        }
                    };
                    match built {
                        Ok(mut tx) => {
                            tx.timestamp = c.tip_rec().ts + 50 + step as u64;
                            tx.sign(&wkey.sk);
                            tx.generate(&c.keys[0].pk, 0, 0);
                            // (c) properties of the built transaction
                            let mut keys: Vec<UtxoKey> = tx.from.iter().filter(|s| s.amount > 0).map(|s| SlipRef::from_slip(s).key()).collect();
                            let nk = keys.len();
                            keys.sort();
                            keys.dedup();
                            if keys.len() != nk {
                                r.violate("C19|built-tx|same-output-twice", format!("step {} ({}): the wallet built a transaction that references the same output twice", step, k));
                            }
                            let tin: u128 = tx.from.iter().map(|s| s.amount as u128).sum();
                            let tout: u128 = tx.to.iter().map(|s| s.amount as u128).sum();
                            if tout > tin {
                                r.violate(
                                    format!("C19|built-tx|spends-more-than-it-consumes|{}", k),
                                    format!("step {} ({}): wallet-built transaction pays out {} but consumes {} (requested amount {} fee {}, balance {})", step, k, tout, tin, amount, fee, balance),
                                );
                            } else if !tx.validate(&wn.bc.utxoset, &wn.bc, true) {
                                r.violate(
                                    format!("C19|built-tx|does-not-validate|{}", k),
                                    format!("step {} ({}): wallet-built transaction (amount {} fee {}, balance {}) does not validate against the ledger it was built on", step, k, amount, fee, balance),
                                );
                            }
                            if tx.from.iter().any(|s| s.amount > 0) {
                                pending.push(tx);
                                spends += 1;
                            }
                        }
                        Err(_) => {
                            r.probe("wallet_declined_to_build");
                        }
                    }
                }
                "re-add-slip" => {
                    // the embedding application hands a slip back to the wallet that the wallet already holds (the
                    // wasm binding's add_slip with a saved slip list): one that is committed to a pending transaction,
                    // or, without pending transactions, an unspent one. Nothing may change
                    // (only a slip the wallet holds right now: one whose pending transaction went stale because the
                    // input left the window has been dropped by the wallet, and handing that one back is a new slip)
                    let held = |s: &saito_core::core::consensus::slip::Slip| -> bool {
                        let mut c = s.clone();
                        c.generate_utxoset_key();
                        block_on(wn.wallet.read()).slips.contains_key(&c.utxoset_key)
                    };
                    let cand = pending.iter().flat_map(|t| t.from.iter()).find(|s| s.amount > 0 && held(s)).cloned().or_else(|| {
                        let w = block_on(wn.wallet.read());
                        w.unspent_slips.iter().next().and_then(|k| saito_core::core::consensus::slip::Slip::parse_slip_from_utxokey(k).ok())
                    });
                    if let Some(mut sl) = cand {
                        sl.generate_utxoset_key();
                        let before = { let w = block_on(wn.wallet.read()); (w.get_available_balance(), w.unspent_slips.len()) };
                        {
                            let mut w = block_on(wn.wallet.write());
                            w.add_slip(sl.block_id, sl.tx_ordinal, &sl, true, None);
                        }
                        let after = { let w = block_on(wn.wallet.read()); (w.get_available_balance(), w.unspent_slips.len()) };
                        r.fault("known_slip_handed_to_the_wallet_again", 1);
                        if before != after {
                            r.violate(
                                "C19|re-added-slip-changes-the-wallet",
                                format!("step {}: handing the wallet a slip it already holds changed balance / unspent count from {:?} to {:?}", step, before, after),
                            );
                        }
                    }
                }
                "block-confirm" => {
                    let txs: Vec<Transaction> = pending.drain(..).collect();
                    ok = produce(&mut c, &mut wn, &mut r, txs, &mut rng);
                }
                "block-plain" | "block-drop" => {
                    ok = produce(&mut c, &mut wn, &mut r, vec![], &mut rng);
                }
                "reorg" => {
                    // a competing fork: one block off the tip's parent, then one more -> replaces the tip
                    if c.recs.len() >= 3 && plan.gp >= 100 {
                        // depth 1 .. prune depth + 2: the deeper ones unwind blocks whose bodies were dropped
                        let depth = (1 + (op.a % (plan.prune_after + 2)) as usize).min(c.recs.len() - 2);
                        let at = c.recs.len() - 1 - depth;
                        if let Ok(Ok(mut f)) = crate::util::guarded(|| c.fork_at(at)) {
                            let mut good = true;
                            for k in 0..(depth as u64 + 1) {
                                let tag = f.tag();
                                let ts = f.tip_rec().ts + tag;
                                let t = make_tx(&f.keys[3].clone(), &[], &[(f.keys[3].pk, 0)], ts, &tag.to_le_bytes());
                                let tip_hash = f.tip_rec().hash;
                                let want = f.tip_rec().id % 2 == 1;
                                let gt = want || !f.node.bc.is_golden_ticket_count_valid(tip_hash, want, false, false);
                                match crate::util::guarded(|| f.extend(vec![t], gt, 2150 + k)) {
                                    Ok(Ok(i)) => {
                                        let _ = crate::util::guarded(|| wn.add_block_bytes(&f.recs[i].bytes.clone()));
                                    }
                                    _ => {
                                        good = false;
                                        break;
                                    }
                                }
                            }
                            if good && wn.tip().1 == f.tip_rec().hash {
                                c = f;
                                strict = false; // the property states the exact-set clause for chains without reorganisation only
                                r.fault("reorganisation", 1);
                                if depth as u64 > plan.prune_after {
                                    r.fault("reorganisation_unwinds_pruned_blocks", 1);
                                }
                            }
                        }
                    }
                }
                _ => {}
            }
            if !r.violations.is_empty() || !ok {
                break;
            }
            check_internal(&mut r, &wn, step, &op.k);
            if !r.violations.is_empty() {
                break;
            }
            if strict && wn.tip().1 == c.tip_rec().hash {
                // (b) unspent set == ledger's in-window spendable outputs of the key - inputs committed to pending txs
                let tip_id = c.tip_rec().id;
                let committed: Vec<UtxoKey> = pending.iter().flat_map(|t| t.from.iter().filter(|s| s.amount > 0).map(|s| SlipRef::from_slip(s).key())).collect();
                let mut want: Vec<UtxoKey> = c
                    .ledger
                    .unspent_of(&wkey.pk)
                    .into_iter()
                    .filter(|s| s.stype != SlipType::Bound && s.stype != SlipType::BlockStake && s.block_id >= tip_id.saturating_sub(gp))
                    .map(|s| s.key())
                    .filter(|k| !committed.contains(k))
                    .collect();
                want.sort();
                let mut got: Vec<UtxoKey> = {
                    let w = block_on(wn.wallet.read());
                    w.unspent_slips.iter().cloned().collect()
                };
                got.sort();
                if want != got {
                    if std::env::var("VERIF_DEBUG").is_ok() {
                        for k in got.iter().filter(|k| !want.contains(k)) {
                            eprintln!("only in wallet: {:?} committed={}", &k[33..], committed.contains(k));
                        }
                        for k in want.iter().filter(|k| !got.contains(k)) {
                            eprintln!("only in ledger: {:?}", &k[33..]);
                        }
                    }
                    let missing = want.iter().filter(|k| !got.contains(k)).count();
                    let extra = got.iter().filter(|k| !want.contains(k)).count();
                    r.violate(
                        format!("C19|unspent-set-differs-from-ledger|{}", if missing > 0 && extra > 0 { "both" } else if missing > 0 { "missing" } else { "extra" }),
                        format!("step {} ({}): wallet lists {} unspent outputs, the ledger (tip {}) minus pending inputs has {}: {} missing in the wallet, {} only in the wallet", step, op.k, got.len(), tip_id, want.len(), missing, extra),
                    );
                    break;
                }
            }
            r.steps += 1;
        }
        // restore from a balance snapshot (the entry point a lite / browser wallet uses instead of winding
        // blocks): a fresh wallet filled from the node's snapshot for this key lists exactly the ledger's in-window
        // outputs of the key, and what it builds from them validates
        if r.violations.is_empty() && wn.tip().0 > 1 {
            use saito_core::core::consensus::wallet::Wallet;
            let snap = wn.bc.get_balance_snapshot(vec![wkey.pk], &wn.cfg);
            let mut fresh = Wallet::new(wkey.sk, wkey.pk);
            fresh.update_from_balance_snapshot(snap, None);
            r.fault("wallet_restored_from_balance_snapshot", 1);
            let tip_id = wn.tip().0;
            let mut want: Vec<UtxoKey> = wn
                .bc
                .utxoset
                .iter()
                .filter(|(k, v)| **v && k[..33] == wkey.pk[..] && k[58] != 9 && u64::from_be_bytes(k[33..41].try_into().unwrap()) >= tip_id.saturating_sub(gp))
                .map(|(k, _)| *k)
                .collect();
            want.sort();
            let mut got: Vec<UtxoKey> = fresh.unspent_slips.iter().cloned().collect();
            got.sort();
            let sum: u128 = fresh.unspent_slips.iter().filter_map(|k| fresh.slips.get(k)).map(|s| s.amount as u128).sum();
            if want != got {
                r.violate("C19|snapshot|unspent-set-differs-from-ledger", format!("a wallet restored from the node's balance snapshot lists {} unspent outputs, the ledger has {} in-window outputs for the key", got.len(), want.len()));
            } else if sum != fresh.get_available_balance() as u128 {
                r.violate("C19|snapshot|balance-differs-from-unspent-sum", format!("restored wallet: balance {} but unspent outputs sum to {}", fresh.get_available_balance(), sum));
            } else if fresh.get_available_balance() > 0 {
                let non_normal = fresh.unspent_slips.iter().filter(|k| k[58] != 0).count();
                if non_normal > 0 {
                    r.probe("snapshot_with_non_ordinary_outputs");
                }
                let amount = fresh.get_available_balance();
                if let Ok(mut tx) = Transaction::create(&mut fresh, c.keys[2].pk, amount, 0, false, None, tip_id, gp) {
                    tx.timestamp = c.tip_rec().ts + 77;
                    tx.sign(&wkey.sk);
                    tx.generate(&c.keys[0].pk, 0, 0);
                    if tx.from.iter().any(|s| s.amount > 0) && !tx.validate(&wn.bc.utxoset, &wn.bc, true) {
                        r.violate(
                            "C19|snapshot|built-tx-does-not-validate",
                            format!("a transaction spending the whole balance ({}) of a wallet restored from the balance snapshot ({} outputs, {} of them not of the ordinary type) does not validate against the ledger", amount, got.len(), non_normal),
                        );
                    }
                }
            }
        }
        if spends > 0 && receives > 0 {
            let mut d = Digest::new();
            for o in &plan.ops {
                d.str(&o.k).u64(o.a % 4).u64(o.b % 4);
            }
            d.u64(plan.gp);
            r.nontrivial.push(d.get());
        }
        r.probe_n("wallet_spends", spends);
        trace.bytes(&wn.tip().1);
        r.state_hash = trace.get();
        r.trace_hash = trace.get();
        r
    }
    fn shrink(&self, plan: &Value) -> Vec<Value> {
        let p: Plan = match serde_json::from_value(plan.clone()) {
            Ok(p) => p,
            Err(_) => return vec![],
        };
        let mut out = vec![];
        if p.ops.len() > 1 {
            let mut q = p.clone();
            q.ops.pop();
            out.push(q);
        }
        for i in 0..p.ops.len() {
            if p.ops.len() > 1 {
                let mut q = p.clone();
                q.ops.remove(i);
                out.push(q);
            }
        }
        out.into_iter().map(|p| serde_json::to_value(p).unwrap()).collect()
    }
}
