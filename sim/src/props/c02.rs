//! C02 — token supply is conserved (no inflation, no silent loss).
//!
//! Long honest histories on a producer node with a small genesis period (fees, routing paths,
//! golden-ticket streaks and gaps, rebroadcasts once the window wraps), optionally a competing
//! fork (reorganisation across payouts) observed by a second node, optionally one hostile
//! transaction whose output sum wraps 64 bits. After every accepted block the conservation
//! equation is evaluated in u128 on every node and on the reference ledger.

use saito_core::core::consensus::transaction::{Transaction, TransactionType};
use serde::{Deserialize, Serialize};
use serde_json::Value;

use crate::framework::*;
use crate::rng::{mix, Rng};
use crate::util::Digest;
use crate::world::*;

pub struct C02;

#[derive(Clone, Debug, Serialize, Deserialize)]
pub struct BlockOp {
    pub ntx: usize,
    pub fee: u64,
    pub hops: usize,
    pub gt: bool,
    pub dt: u64,
}

#[derive(Clone, Debug, Serialize, Deserialize)]
pub struct Plan {
    pub seed: u64,
    pub gp: u64,
    pub prune_after: u64,
    pub base_amount: u64,
    pub ops: Vec<BlockOp>,
    /// fork: branch off after `at` blocks with `len` blocks of its own
    pub fork_at: Option<usize>,
    pub fork_ops: Vec<BlockOp>,
    /// hostile wrap transaction offered after block index `hostile_at` (kind, path)
    pub hostile: Option<(usize, String, String)>,
}

fn gen_ops(rng: &mut Rng, n: usize) -> Vec<BlockOp> {
    let mut ops = vec![];
    let gt_style = rng.below(4);
    let fee_style = rng.below(3);
    for i in 0..n {
        let gt = match gt_style {
            0 => i % 2 == 1,
            1 => i % 3 != 0,
            2 => (i / 3) % 2 == 0, // streaks of tickets and gaps
            _ => rng.chance(1, 2),
        };
        let fee = match fee_style {
            0 => 0,
            1 => rng.below(5_000),
            _ => {
                if rng.chance(1, 3) {
                    rng.below(400_000)
                } else {
                    rng.below(2_000)
                }
            }
        };
        ops.push(BlockOp {
            ntx: rng.range(1, 4) as usize,
            fee,
            hops: rng.below(3) as usize,
            gt,
            dt: 2000 + rng.below(1500),
        });
    }
    ops
}

fn gen(seed: u64, tier: Tier) -> Plan {
    let mut rng = Rng::new(seed);
    let gp = rng.range(3, 10);
    let max_blocks = if tier == Tier::Quick { 30 } else { 120 };
    let n = rng.range(gp + 2, max_blocks) as usize;
    let ops = gen_ops(&mut rng, n);
    let (fork_at, fork_ops) = if rng.chance(1, 3) && n > 4 && gp >= 3 {
        // the fork point stays inside the retention window when the fork is delivered (a fork
        // whose shared ancestor has already been purged is the orphan case, owned by C03/C05)
        let depth = rng.range(1, gp - 2) as usize;
        let at = n - depth;
        let len = depth + rng.range(1, 2) as usize;
        (Some(at), gen_ops(&mut rng, len))
    } else {
        (None, vec![])
    };
    let hostile = if rng.chance(1, 4) {
        Some((
            rng.range(1, n as u64 - 1) as usize,
            rng.pick(&["wrap-two-halves", "wrap-max-plus", "wrap-three", "gt-pays-out", "nft-overspend", "spend-at-window-edge", "spend-at-window-edge", "stake-spend-at-window-edge"]).to_string(),
            rng.pick(&["pool", "block"]).to_string(),
        ))
    } else {
        None
    };
    Plan {
        seed,
        gp,
        prune_after: *rng.pick(&[2u64, 4, 8]),
        base_amount: *rng.pick(&[1_000u64, 1_000_000, 40_000_000_000_000]),
        ops,
        fork_at,
        fork_ops,
        hostile,
    }
}

fn block_txs(c: &mut Chain, rng: &mut Rng, op: &BlockOp) -> Vec<Transaction> {
    let mut txs = vec![];
    let mut used: Vec<UtxoKey> = vec![];
    let n_users = c.params.n_users;
    for _ in 0..op.ntx {
        let user = 1 + rng.usize_below(n_users);
        let to = 1 + rng.usize_below(n_users);
        let pick = rng.usize_below(64);
        if let Some((tx, inp)) = c.payment(user, to, pick, op.fee, op.hops, &used) {
            used.push(inp.key());
            txs.push(tx);
        }
    }
    // now and then an NFT is minted (Bound-Normal-Bound group, fee-paying like any other transaction);
    // its group later crosses the window edge as a unit
    if rng.chance(1, 5) {
        let user = 1 + rng.usize_below(n_users);
        let to = 1 + rng.usize_below(n_users);
        let mine: Vec<SlipRef> = c.spendable(&c.keys[user].pk).into_iter().filter(|s| !used.contains(&s.key()) && s.amount > 100 && s.stype == saito_core::core::consensus::slip::SlipType::Normal).collect();
        if !mine.is_empty() {
            let inp = mine[rng.usize_below(mine.len())].clone();
            used.push(inp.key());
            let fee = op.fee.min(inp.amount / 4);
            let rest = inp.amount - fee;
            let deposit = if rng.chance(1, 3) { 1 + rng.below(1500).min(rest / 2) } else { rest / 2 };
            let tag = c.tag();
            let ts = c.tip_rec().ts + tag;
            txs.push(make_nft_tx(&c.keys[user].clone(), &inp, &c.keys[to].pk.clone(), deposit, rest - deposit, ts, &tag.to_le_bytes()));
        }
    }
    if txs.is_empty() {
        let tag = c.tag();
        let ts = c.tip_rec().ts + tag;
        txs.push(make_tx(&c.keys[1].clone(), &[], &[(c.keys[1].pk, 0)], ts, &tag.to_le_bytes()));
    }
    txs
}

fn check_supply(r: &mut RunResult, who: &str, n: &Node, gp: u64, genesis: u128, ledger: Option<&RefLedger>) {
    if let Some((lhs, parts)) = node_supply(n, gp) {
        if lhs != genesis {
            let dir = if lhs > genesis { "inflation" } else { "loss" };
            r.violate(
                format!("C02|supply|{}", dir),
                format!(
                    "{} at tip {}: utxo {} + treasury {} + graveyard {} + unpaid {} + fees {} = {} != issued {} (diff {})",
                    who, n.tip().0, parts[0], parts[1], parts[2], parts[3], parts[4], lhs, genesis, lhs as i128 - genesis as i128
                ),
            );
            return;
        }
        if let Some(l) = ledger {
            let tip = n.bc.get_latest_block().unwrap();
            let ls = ledger_supply(l, tip.id, gp);
            if ls != parts[0] {
                r.violate(
                    "C02|ledger-disagrees-with-reference",
                    format!("{} at tip {}: in-window spendable value {} on the node, {} in the reference replay", who, tip.id, parts[0], ls),
                );
            }
        }
    }
}

/// per-transaction clause: no accepted user transaction pays out more than it consumes (u128)
fn check_block_txs(r: &mut RunResult, rec: &BlockRec) {
    for (ti, tx) in rec.txs.iter().enumerate() {
        match tx.ttype {
            TransactionType::Normal | TransactionType::Vip | TransactionType::Bound | TransactionType::BlockStake | TransactionType::SPV | TransactionType::GoldenTicket => {
                let tin: u128 = tx.inputs.iter().filter(|s| slip_type_code(s.stype) != 9).map(|s| s.amount as u128).sum();
                let tout: u128 = tx.outputs.iter().filter(|s| slip_type_code(s.stype) != 9).map(|s| s.amount as u128).sum();
                if tout > tin {
                    r.violate(
                        "C02|tx-creates-value",
                        format!("block {} tx {} of type {:?} pays out {} but consumes {}", rec.id, ti, tx.ttype, tout, tin),
                    );
                }
            }
            _ => {}
        }
    }
}

fn hostile_tx(c: &mut Chain, kind: &str) -> Option<Transaction> {
    let vk = c.keys[1].clone();
    let mine = c.spendable(&vk.pk);
    let inp = mine.first()?.clone();
    let tag = c.tag();
    let ts = c.tip_rec().ts + tag;
    match kind {
        "spend-at-window-edge" | "stake-spend-at-window-edge" => {
            // an unspent output of block (tip - genesis period): the next block's rebroadcast pass is the one
            // that handles that block (rebroadcasts the output, or collects it as dust), so a user transaction
            // in that block may not spend it as well. Smallest amounts first: dust is collected without an ATR
            // input that the per-block double-spend registry could collide with
            let tip_id = c.tip_rec().id;
            let gp = c.params.genesis_period;
            let mut edge: Vec<SlipRef> = c
                .ledger
                .utxo
                .values()
                .filter(|s| s.block_id + gp == tip_id && s.amount > 0 && s.stype == saito_core::core::consensus::slip::SlipType::Normal)
                .cloned()
                .collect();
            edge.sort_by_key(|s| (s.amount, s.key()));
            let e = edge.first()?.clone();
            let owner = c.keys.iter().find(|k| k.pk == e.pk)?.clone();
            let mut t = make_tx(&owner, &[e.clone()], &[(owner.pk, e.amount)], ts, &tag.to_le_bytes());
            if kind == "stake-spend-at-window-edge" {
                // the same spend under the staking type (valid with staking off: the requirement is zero)
                t.transaction_type = TransactionType::BlockStake;
                t.sign(&owner.sk);
            }
            return Some(t);
        }
        "gt-pays-out" => {
            // a golden ticket with a valid solution whose transaction also carries a value output
            let tip = c.tip_rec().hash;
            let d = c.node.bc.get_block(&tip).map(|b| b.difficulty).unwrap_or(0);
            if d > 12 {
                return None;
            }
            let mut g = gt_tx(mine_gt(tip, d, &vk, tag), &vk);
            let mut o = saito_core::core::consensus::slip::Slip::default();
            o.public_key = vk.pk;
            o.amount = 5_000_000_000;
            g.add_to_slip(o);
            g.sign(&vk.sk);
            return Some(g);
        }
        "nft-overspend" => {
            // an NFT creation whose ordinary outputs exceed the consumed input
            if inp.stype != saito_core::core::consensus::slip::SlipType::Normal {
                return None;
            }
            return Some(make_nft_tx(&vk, &inp, &vk.pk, inp.amount, inp.amount / 2 + 1, ts, &tag.to_le_bytes()));
        }
        _ => {}
    }
    let outs: Vec<(saito_core::core::defs::SaitoPublicKey, u64)> = match kind {
        "wrap-two-halves" => vec![(vk.pk, 1u64 << 63), (vk.pk, 1u64 << 63)],
        "wrap-max-plus" => vec![(vk.pk, u64::MAX), (vk.pk, inp.amount / 2 + 1)],
        _ => vec![(vk.pk, u64::MAX / 3 + 1), (vk.pk, u64::MAX / 3 + 1), (vk.pk, u64::MAX / 3 + 1)],
    };
    Some(make_tx(&vk, &[inp], &outs, ts, &tag.to_le_bytes()))
}

impl Scenario for C02 {
    fn id(&self) -> &'static str {
        "C02"
    }
    fn meta(&self) -> Meta {
        Meta {
            level: "exploration",
            rule: "run = producer node (builds every block on its own tip with the real Block::create and validates it itself) over genesis period 3..10 for up to 30/120 blocks: 1-4 payments per block with fee classes {0, small, occasionally large}, 0-2 hop routing paths, an NFT minted (Bound-Normal-Bound group, possibly fee-paying) in about one block of five, four golden-ticket patterns (alternating, 2-of-3, streaks and gaps, random), issuance scales {1e3, 1e6, 4e13 per slip}; rebroadcasts start when the window wraps. One third of the runs add a competing fork built by a second producer that replayed the shared prefix, delivered to an observer node after the main chain (reorganisation across payouts and rebroadcasts). One quarter add a hostile transaction that pays out more than it consumes (output sum wrapping 2^64; a golden ticket with a valid solution and a value output; an NFT creation whose ordinary outputs exceed its input) or that spends the smallest unspent output of block (tip - genesis period), which the very next block's rebroadcast pass rebroadcasts or collects as dust, through the pool or inside a block. Oracle after every accepted block, on every node, in u128: in-window non-Bound spendable value + treasury + graveyard + previous_block_unpaid + total_fees(tip) == issued; the node's in-window value equals the reference replay; no accepted user transaction has outputs > inputs. distinct_nontrivial = distinct history digests with >= 1 golden-ticket payout, >= 1 fee-paying transaction and >= 1 rebroadcast block.",
            real: &["Block::create/generate_consensus_values/validate", "Transaction::generate_total_fees/validate", "Blockchain::add_block/check_total_supply", "Mempool::add_transaction_if_validates", "Storage (block files read back for rebroadcast)"],
            stubs: &["SimIo", "SimConfig", "vendored ahash"],
            assumptions: &["staking off in this family", "timestamps >= 2 heartbeats apart so that the routing-work requirement is zero"],
        }
    }
    fn budget(&self, tier: Tier) -> Budget {
        match tier {
            Tier::Quick => Budget { max_runs: 20_000, wall_s: 45 },
            Tier::Thorough => Budget { max_runs: 1_000_000, wall_s: 480 },
        }
    }
    fn generate(&self, seed: u64, index: u64, tier: Tier) -> Value {
        serde_json::to_value(gen(derive_run_seed(seed, "C02", index), tier)).unwrap()
    }
    fn execute(&self, plan: &Value) -> RunResult {
        let plan: Plan = serde_json::from_value(plan.clone()).expect("plan");
        let mut r = RunResult::default();
        let params = Params {
            genesis_period: plan.gp,
            heartbeat: 1000,
            n_users: 3,
            slips_per_user: 5,
            base_amount: plan.base_amount,
        };
        let mut rng = Rng::new(mix(plan.seed, 9));
        let mut trace = Digest::new();
        let mut c = match crate::util::guarded(|| Chain::new(plan.seed, params.clone(), plan.prune_after)) {
            Ok(Ok(c)) => c,
            _ => {
                r.discarded = true;
                r.probe("genesis_failed");
                return r;
            }
        };
        let genesis = c.genesis_supply;
        let mut observer = Node::new(&c.cfg, &c.keys[2].clone());
        let _ = observer.add_block_bytes(&c.recs[0].bytes.clone());
        let mut payouts = 0u64;
        let mut fee_txs = 0u64;
        let mut atr_blocks = 0u64;
        let mut fork_chain: Option<Chain> = None;
        let mut hist = Digest::new();
        for (bi, op) in plan.ops.iter().enumerate() {
            if plan.fork_at == Some(bi) {
                match crate::util::guarded(|| c.fork_at(c.recs.len() - 1)) {
                    Ok(Ok(f)) => fork_chain = Some(f),
                    _ => {
                        r.probe("fork_replay_failed");
                    }
                }
            }
            let mut txs = block_txs(&mut c, &mut rng, op);
            // hostile transaction
            let mut hostile_sig: Option<[u8; 64]> = None;
            if let Some((at, kind, path)) = &plan.hostile {
                if *at == bi {
                    if let Some(h) = hostile_tx(&mut c, kind) {
                        r.fault("wrapping_amount_tx", 1);
                        if path == "pool" {
                            if c.node.add_tx(h.clone()) {
                                r.violate(format!("C02|accepted|{}|pool", kind), format!("a transaction that pays out more than it consumes, or spends an output the same block's rebroadcast pass collects ({}), entered the pool", kind));
                            }
                            c.node.mempool.transactions.clear();
                            c.node.mempool.utxo_map.clear();
                        } else {
                            hostile_sig = Some(h.signature);
                            // must not conflict with an honest tx of the same block
                            let hk = SlipRef::from_slip(&h.from[0]).key();
                            txs.retain(|t| t.from.iter().all(|s| SlipRef::from_slip(s).key() != hk));
                            txs.push(h);
                        }
                    }
                }
            }
            if hostile_sig.is_some() {
                // build on the producer's storage without adding; offer to the observer only
                let parent = c.tip_rec().hash;
                let ts = c.tip_rec().ts + op.dt;
                // (a hostile golden ticket is the block's ticket)
                let block_gt = op.gt && plan.hostile.as_ref().map_or(true, |h| h.1 != "gt-pays-out");
                match crate::util::guarded(|| build_block(&c.node, &c.keys, BlockSpec { parent, ts, txs: txs.clone(), gt: block_gt, creator: 0 })) {
                    Ok(Ok(b)) => {
                        let rec = rec_from_block(&b, false, "hostile-wrap");
                        let res = crate::util::guarded(|| observer.add_block_bytes(&rec.bytes));
                        match res {
                            Ok(Some(x)) if outcome_of(&x) == (AddOutcome::Added { longest: true }) => {
                                r.violate(
                                    format!("C02|accepted|{}|block", plan.hostile.as_ref().unwrap().1),
                                    "a block carrying a transaction that pays out more than it consumes (64-bit wrap, value-bearing golden ticket, NFT overspend) or that spends an output the same block's rebroadcast pass collects was accepted".to_string(),
                                );
                                check_block_txs(&mut r, &rec);
                            }
                            Err(p) => {
                                r.violate(format!("C02|panic|{}", p.site()), format!("{} ({}:{})", p.msg, p.file, p.line));
                            }
                            _ => {}
                        }
                    }
                    _ => {}
                }
                if !r.violations.is_empty() {
                    break;
                }
                // continue the honest history without the hostile tx
                txs.retain(|t| Some(t.signature) != hostile_sig);
                if txs.is_empty() {
                    txs = block_txs(&mut c, &mut rng, op);
                }
            }
            // like the real producer (can_bundle_block) do not bundle without enough golden tickets
            let tip_hash = c.tip_rec().hash;
            // (long ticket streaks drive the difficulty up by one per block; the harness's own miner pays
            // 2^difficulty hashes, so optional tickets stop at difficulty 10)
            let tip_difficulty = c.node.bc.get_block(&tip_hash).map(|b| b.difficulty).unwrap_or(0);
            let want = op.gt && tip_difficulty < 10;
            let gt = want || !c.node.bc.is_golden_ticket_count_valid(tip_hash, want, false, false);
            let ext = crate::util::guarded(|| c.extend(txs, gt, op.dt));
            let idx = match ext {
                Ok(Ok(i)) => i,
                Ok(Err(e)) => {
                    // producer refused its own block: C07's clause; stop this history here
                    r.probe("producer_refused_own_block");
                    trace.str(&e);
                    break;
                }
                Err(p) => {
                    r.violate(format!("C02|panic|{}", p.site()), format!("producer: {} ({}:{})", p.msg, p.file, p.line));
                    break;
                }
            };
            let rec = c.recs[idx].clone();
            hist.bytes(&rec.hash);
            if rec.txs.iter().any(|t| t.ttype == TransactionType::Fee && !t.outputs.is_empty()) {
                payouts += 1;
            }
            if rec.txs.iter().any(|t| t.ttype == TransactionType::ATR) {
                atr_blocks += 1;
            }
            fee_txs += rec.txs.iter().filter(|t| t.ttype == TransactionType::Normal && t.inputs.iter().map(|s| s.amount as u128).sum::<u128>() > t.outputs.iter().map(|s| s.amount as u128).sum::<u128>()).count() as u64;
            check_block_txs(&mut r, &rec);
            check_supply(&mut r, "producer", &c.node, plan.gp, genesis, Some(&c.ledger));
            if !r.violations.is_empty() {
                break;
            }
            let res = crate::util::guarded(|| observer.add_block_bytes(&rec.bytes));
            match res {
                Ok(Some(x)) => {
                    trace.str(&format!("{:?}", outcome_of(&x)));
                    if outcome_of(&x) != (AddOutcome::Added { longest: true }) {
                        r.probe("observer_refused_honest_block");
                        break;
                    }
                }
                Ok(None) => break,
                Err(p) => {
                    r.violate(format!("C02|panic|{}", p.site()), format!("observer: {} ({}:{})", p.msg, p.file, p.line));
                    break;
                }
            }
            check_supply(&mut r, "observer", &observer, plan.gp, genesis, Some(&c.ledger));
            if !r.violations.is_empty() {
                break;
            }
            r.steps += 1;
        }
        // competing fork delivered to the observer
        if r.violations.is_empty() {
            if let Some(mut f) = fork_chain {
                let mut frng = Rng::new(mix(plan.seed, 10));
                for op in &plan.fork_ops {
                    let txs = block_txs(&mut f, &mut frng, op);
                    let tip_hash = f.tip_rec().hash;
                    let fd = f.node.bc.get_block(&tip_hash).map(|b| b.difficulty).unwrap_or(0);
                    let want = op.gt && fd < 10;
                    let gt = want || !f.node.bc.is_golden_ticket_count_valid(tip_hash, want, false, false);
                    let ext = crate::util::guarded(|| f.extend(txs, gt, op.dt + 37));
                    let idx = match ext {
                        Ok(Ok(i)) => i,
                        Ok(Err(_)) => {
                            r.probe("fork_producer_refused_own_block");
                            break;
                        }
                        Err(p) => {
                            r.violate(format!("C02|panic|{}", p.site()), format!("fork producer: {} ({}:{})", p.msg, p.file, p.line));
                            break;
                        }
                    };
                    let rec = f.recs[idx].clone();
                    check_block_txs(&mut r, &rec);
                    check_supply(&mut r, "fork-producer", &f.node, plan.gp, genesis, Some(&f.ledger));
                    if !r.violations.is_empty() {
                        break;
                    }
                    let before = observer.tip();
                    let res = crate::util::guarded(|| {
                        saito_core::core::util::verif::set_step_budget(2000);
                        let x = observer.add_block_bytes(&rec.bytes);
                        saito_core::core::util::verif::set_step_budget(u64::MAX);
                        x
                    });
                    match res {
                        Ok(Some(x)) => {
                            trace.str(&format!("{:?}", outcome_of(&x)));
                            let after = observer.tip();
                            if after.1 == rec.hash && before.1 != rec.parent {
                                r.probe("reorganisation_across_history");
                            }
                            // reference ledger for the observer: whichever chain it is on
                            let l = if after.1 == f.tip_rec().hash { Some(&f.ledger) } else if after.1 == c.tip_rec().hash { Some(&c.ledger) } else { None };
                            check_supply(&mut r, "observer-after-fork-block", &observer, plan.gp, genesis, l);
                        }
                        Ok(None) => break,
                        Err(p) => {
                            r.violate(format!("C02|panic|{}", p.site()), format!("observer on fork block: {} ({}:{})", p.msg, p.file, p.line));
                            break;
                        }
                    }
                    if !r.violations.is_empty() {
                        break;
                    }
                    r.steps += 1;
                }
            }
        }
        r.probe_n("golden_ticket_payout_blocks", payouts);
        r.probe_n("fee_paying_txs", fee_txs);
        r.probe_n("rebroadcast_blocks", atr_blocks);
        if payouts > 0 && fee_txs > 0 && atr_blocks > 0 {
            r.nontrivial.push(hist.get());
        }
        r.sim_time_ms = c.tip_rec().ts - TS0;
        r.state_hash = hist.get();
        trace.u64(hist.get());
        r.trace_hash = trace.get();
        r
    }
    fn shrink(&self, plan: &Value) -> Vec<Value> {
        let p: Plan = match serde_json::from_value(plan.clone()) {
            Ok(p) => p,
            Err(_) => return vec![],
        };
        let mut out = vec![];
        if p.fork_at.is_some() {
            let mut q = p.clone();
            q.fork_at = None;
            q.fork_ops.clear();
            out.push(q);
            if p.fork_ops.len() > 1 {
                let mut q = p.clone();
                q.fork_ops.pop();
                out.push(q);
            }
        }
        if p.hostile.is_some() {
            let mut q = p.clone();
            q.hostile = None;
            out.push(q);
        }
        if p.ops.len() > 2 {
            let mut q = p.clone();
            q.ops.truncate(p.ops.len() / 2);
            if let Some(a) = q.fork_at {
                if a >= q.ops.len() {
                    q.fork_at = None;
                    q.fork_ops.clear();
                }
            }
            if let Some((a, k, pa)) = q.hostile.clone() {
                if a >= q.ops.len() {
                    q.hostile = Some((q.ops.len() - 1, k, pa));
                }
            }
            out.push(q);
            let mut q = p.clone();
            q.ops.pop();
            if let Some(a) = q.fork_at {
                if a >= q.ops.len() {
                    q.fork_at = None;
                    q.fork_ops.clear();
                }
            }
            if let Some((a, k, pa)) = q.hostile.clone() {
                if a >= q.ops.len() {
                    q.hostile = Some((q.ops.len() - 1, k, pa));
                }
            }
            out.push(q);
        }
        for i in 0..p.ops.len() {
            if p.ops[i].ntx > 1 || p.ops[i].hops > 0 {
                let mut q = p.clone();
                q.ops[i].ntx = 1;
                q.ops[i].hops = 0;
                out.push(q);
            }
        }
        out.into_iter().map(|p| serde_json::to_value(p).unwrap()).collect()
    }
}
