//! C04 — a rejected block leaves no trace; block processing always returns.
//!
//! Main chain M vs candidate chain F whose j-th block is invalid in a way only validation
//! notices; F's blocks are delivered while shorter (stored unvalidated) and the first block that
//! makes F longer triggers a reorganisation attempt that must fail and restore everything.
//! Disk read faults hit the Pruned->Full upgrades of the reorganisation.

use serde::{Deserialize, Serialize};
use serde_json::Value;

use crate::framework::*;
use crate::rng::{mix, Rng};
use crate::util::Digest;
use crate::world::*;

pub struct C04;

#[derive(Clone, Debug, Serialize, Deserialize)]
pub struct Plan {
    pub seed: u64,
    pub prefix: usize,
    pub main_len: usize,
    pub cand_len: usize,
    pub bad_pos: usize,
    pub bad_kind: String,
    pub prune_after: u64,
    /// fail the n-th block-file read performed during the failing call
    pub disk_fault_nth: Option<u64>,
    pub extra_after: usize,
    /// candidate directly on the tip (no competing chain): its second block arrives before its first, so
    /// that the candidate is first stored off the chain and then wound as a multi-block chain whose old
    /// segment is empty
    #[serde(default)]
    pub second_first: bool,
    /// > 0: the "ring" family instead: a producer chain with this small genesis period (block ring of
    /// 2 x gp slots), delivered to a fresh node so that block K arrives before K-1, then an invalid child
    /// of K; K is chosen on or next to a multiple of the ring size
    #[serde(default)]
    pub ring_gp: u64,
    #[serde(default)]
    pub ring_k: u64,
}

#[derive(Clone, Debug, PartialEq, Eq)]
pub struct Snap {
    pub tip: (u64, [u8; 32]),
    pub utxo: Vec<UtxoKey>,
    pub index: Vec<Option<[u8; 32]>>,
    pub blocks: Vec<([u8; 32], bool)>,
    /// every (id, hash) the block ring lists, on the longest chain or not
    pub ring_entries: Vec<Vec<[u8; 32]>>,
    pub wallet_slips: Vec<UtxoKey>,
    pub wallet_slip_fields: Vec<(UtxoKey, u64, u64, u64, u8, bool)>,
    pub wallet_unspent: Vec<UtxoKey>,
    pub wallet_balance: u64,
}

pub fn snapshot(n: &Node, max_id: u64) -> Snap {
    let mut blocks: Vec<([u8; 32], bool)> = n.bc.blocks.iter().map(|(h, b)| (*h, b.in_longest_chain)).collect();
    blocks.sort();
    let w = crate::util::block_on(n.wallet.read());
    let mut ws: Vec<UtxoKey> = w.slips.keys().cloned().collect();
    ws.sort();
    // every field of every wallet slip, not only its key (the wallet rebuilds inputs from these fields)
    let mut wd: Vec<(UtxoKey, u64, u64, u64, u8, bool)> = w.slips.iter().map(|(k, s)| (*k, s.amount, s.block_id, s.tx_ordinal, s.slip_index, s.spent)).collect();
    wd.sort();
    let mut wu: Vec<UtxoKey> = w.unspent_slips.iter().cloned().collect();
    wu.sort();
    Snap {
        tip: n.tip(),
        utxo: n.utxo_keys(),
        index: (1..=max_id + 2)
            .map(|id| n.bc.blockring.get_longest_chain_block_hash_at_block_id(id))
            .collect(),
        blocks,
        ring_entries: (1..=max_id + 2)
            .map(|id| {
                let mut v = n.bc.blockring.get_block_hashes_at_block_id(id);
                v.sort();
                v
            })
            .collect(),
        wallet_slips: ws,
        wallet_slip_fields: wd,
        wallet_unspent: wu,
        wallet_balance: w.get_available_balance(),
    }
}

pub fn snap_diff(a: &Snap, b: &Snap) -> Option<&'static str> {
    if a.tip != b.tip {
        return Some("tip");
    }
    if a.utxo != b.utxo {
        return Some("spendable-set");
    }
    if a.index != b.index {
        return Some("index");
    }
    if a.blocks != b.blocks {
        return Some("stored-blocks");
    }
    if a.ring_entries != b.ring_entries {
        return Some("ring-entries");
    }
    if a.wallet_slips != b.wallet_slips || a.wallet_unspent != b.wallet_unspent || a.wallet_balance != b.wallet_balance {
        return Some("wallet");
    }
    if a.wallet_slip_fields != b.wallet_slip_fields {
        return Some("wallet-slip-fields");
    }
    None
}

fn gen(seed: u64, tier: Tier) -> Plan {
    let mut p = gen_base(seed, tier);
    // one run in six: the candidate sits directly on the tip and its second block arrives first
    let mut rng = Rng::new(mix(seed, 0x5ec0));
    if rng.chance(1, 12) {
        p.ring_gp = rng.range(3, 6);
        let ring = 2 * p.ring_gp;
        p.ring_k = match rng.below(3) {
            0 => ring,
            1 => ring + 1,
            _ => rng.range(4, ring + 2),
        };
        p.disk_fault_nth = None;
        return p;
    }
    if rng.chance(1, 6) {
        p.main_len = 0;
        p.cand_len = 3 + rng.below(3) as usize;
        p.bad_pos = 2 + rng.usize_below(p.cand_len - 2);
        p.second_first = true;
        p.disk_fault_nth = None;
    }
    p
}

fn gen_base(seed: u64, tier: Tier) -> Plan {
    let mut rng = Rng::new(seed);
    let (max_main, max_cand) = if tier == Tier::Quick { (4, 5) } else { (10, 7) };
    let main_len = rng.below(max_main as u64 + 1) as usize;
    // the candidate must get longer than main to trigger the attempt
    let cand_len = (main_len + 1 + rng.below(2) as usize).min(max_cand.max(main_len + 1));
    let bad_pos = match rng.below(3) {
        0 => 0,
        1 => cand_len - 1,
        _ => rng.usize_below(cand_len),
    };
    // a quarter of the runs: the bad block is invalid because a transaction's input is not spendable
    // (then a roll-back that also "unwinds" the never-applied block would resurrect that input)
    let kind = if rng.chance(1, 4) { rng.pick(TX_INVALIDITY_KINDS).to_string() } else { rng.pick(BLOCK_INVALIDITY_KINDS).to_string() };
    let prune_after = *rng.pick(&[1u64, 2, 3, 8, 8]);
    let disk_fault_nth = if rng.chance(1, 4) { Some(rng.below(6)) } else { None };
    Plan {
        seed,
        prefix: rng.below(4) as usize,
        main_len,
        cand_len,
        bad_pos,
        bad_kind: kind,
        prune_after,
        disk_fault_nth,
        extra_after: rng.below(3) as usize,
        second_first: false,
        ring_gp: 0,
        ring_k: 0,
    }
}

impl Scenario for C04 {
    fn id(&self) -> &'static str {
        "C04"
    }
    fn meta(&self) -> Meta {
        Meta {
            level: "exploration",
            rule: "run = shared prefix + main chain (0..M blocks) + candidate chain (1..F blocks, longer than main) whose block at bad_pos carries one of 11 header/transaction edits that only validation notices (re-signed, so decodable and self-consistent) or, in a quarter of the runs, a transaction whose input is not spendable on that branch (already spent by an ancestor, or never existed); candidate blocks are delivered in order, so the ones not longer than main are stored unvalidated and the first longer one triggers the reorganisation attempt (when the candidate sits directly on the tip, in a sixth of all runs (candidate of 3-5 blocks on the tip) its second block is delivered before its first, so that a multi-block candidate with an empty old segment is wound); optional disk read fault on the n-th block-file read of that call; prune depth 1..8 so that unwinding needs Pruned->Full upgrades. A twelfth of the runs is the ring family: a producer chain with genesis period 3..6 (block ring of 2 x gp slots) is given to a fresh node up to K-2, then block K before K-1, then an invalid child of K, with K on / next to a multiple of the ring size. Oracle: full snapshot {tip, spendable set, index for all ids, stored blocks + on-chain flags, every (id, hash) entry of the block ring, wallet slips (every field)/unspent/balance} before == after every call that does not return BlockAddedSuccessfully; step budget 8*(|new|+|old|)+16 on the wind/unwind loop; afterwards the node must still extend its chain. distinct_nontrivial = distinct (|main|, |cand|, bad_pos, kind, disk fault, prune depth) whose triggering call entered validation and was rejected.",
            real: &["Blockchain::add_block/validate/wind_chain/unwind_chain/add_block_failure", "Block::validate/upgrade_block_to_block_type", "BlockRing", "Wallet::on_chain_reorganization", "Storage"],
            stubs: &["SimIo (in-memory disk with read faults)", "SimConfig", "vendored ahash"],
            assumptions: &["transaction-level invalidity is C01's (Block::validate verdict on transactions)", "genesis period >> chain length", "block cache type (Pruned/Full) is not part of the compared state"],
        }
    }
    fn budget(&self, tier: Tier) -> Budget {
        match tier {
            Tier::Quick => Budget { max_runs: 40_000, wall_s: 40 },
            Tier::Thorough => Budget { max_runs: 2_000_000, wall_s: 420 },
        }
    }
    fn generate(&self, seed: u64, index: u64, tier: Tier) -> Value {
        serde_json::to_value(gen(derive_run_seed(seed, "C04", index), tier)).unwrap()
    }
    fn execute(&self, plan: &Value) -> RunResult {
        let plan: Plan = serde_json::from_value(plan.clone()).expect("plan");
        if plan.ring_gp > 0 {
            return ring_family(&plan);
        }
        let mut r = RunResult::default();
        let mut w = World::new(plan.seed, Params::default());
        let creator = w.keys[0].clone();
        let mut rng = Rng::new(mix(plan.seed, 77));
        // build
        let built = crate::util::guarded(|| -> Result<(Vec<usize>, Vec<usize>, Vec<usize>, bool), String> {
            let mut cur = 0usize;
            let mut prefix = vec![];
            for i in 0..plan.prefix {
                cur = w.honest_child(cur, &mut rng, 2, (w.recs[cur].id + 1) % 2 == 0, 2500, "prefix")?;
                prefix.push(cur);
                let _ = i;
            }
            let fork = cur;
            let mut main = vec![];
            for _ in 0..plan.main_len {
                let dt = 2400 + rng.below(400);
                cur = w.honest_child(cur, &mut rng, 2, (w.recs[cur].id + 1) % 2 == 0, dt, "main")?;
                main.push(cur);
            }
            let mut cand = vec![];
            let mut c = fork;
            let mut applied = false;
            for j in 0..plan.cand_len {
                let gt = (w.recs[c].id + 1) % 2 == 0 || plan.bad_kind == "fee-tx";
                let dt = 2000 + rng.below(300);
                if j == plan.bad_pos && TX_INVALIDITY_KINDS.contains(&plan.bad_kind.as_str()) {
                    match w.child_with_unspendable_input(c, &mut rng, &plan.bad_kind, gt, dt)? {
                        Some(ti) => {
                            c = ti;
                            applied = true;
                        }
                        None => {
                            c = w.honest_child(c, &mut rng, 2, gt, dt, "cand")?;
                        }
                    }
                    cand.push(c);
                    continue;
                }
                let idx = w.honest_child(c, &mut rng, 2, gt, dt, "cand")?;
                if j == plan.bad_pos {
                    let b = w.block(idx);
                    match tamper_block(&b, &plan.bad_kind, &creator) {
                        Some(tb) => {
                            let ti = w.register(tb, false, &format!("invalid:{}", plan.bad_kind));
                            c = ti;
                            applied = true;
                        }
                        None => {
                            c = idx;
                        }
                    }
                } else {
                    c = idx;
                }
                cand.push(c);
            }
            Ok((prefix, main, cand, applied))
        });
        let (prefix, main, cand, applied) = match built {
            Ok(Ok(x)) => x,
            _ => {
                r.discarded = true;
                r.probe("builder_failed");
                return r;
            }
        };
        if !applied {
            r.discarded = true;
            r.probe("edit_not_applicable");
            return r;
        }
        let max_id = w.recs.iter().map(|b| b.id).max().unwrap_or(1);
        let mut cfg = w.cfg.clone();
        cfg.consensus.prune_after_blocks = plan.prune_after;
        let mut n = Node::new(&cfg, &w.keys[1].clone());
        let mut trace = Digest::new();
        fn deliver(w: &World, max_id: u64, n: &mut Node, idx: usize, r: &mut RunResult, trace: &mut Digest, fault: Option<u64>) -> AddOutcome {
            let before = snapshot(n, max_id);
            {
                let mut d = n.disk.lock().unwrap();
                d.block_reads = 0;
                d.fail_block_read_nth = fault;
            }
            let old_len = 0; // bound computed from ids below
            let _ = old_len;
            let tip_id = n.tip().0;
            let budget = 8 * (2 * (max_id + 2) + tip_id) + 16;
            saito_core::core::util::verif::set_step_budget(budget);
            let bytes = w.recs[idx].bytes.clone();
            let res = crate::util::guarded(|| n.add_block_bytes(&bytes));
            saito_core::core::util::verif::set_step_budget(u64::MAX);
            let res = match res {
                Ok(x) => x,
                Err(p) => {
                    let fired = n.disk.lock().unwrap().read_faults_fired;
                    if fired > 0 {
                        r.fault("disk_read_error_during_add_block", fired);
                        r.violate(
                            "C04|disk-read-fault|panic",
                            format!("a block-file read error during the reorganisation attempt ended in a panic: {} ({}:{})", p.msg, p.file, p.line),
                        );
                    } else if p.step_budget {
                        r.violate(format!("C04|does-not-return|{}", p.site()), format!("add_block exceeded its step budget of {}", budget));
                    } else {
                        r.violate(format!("C04|panic|{}", p.site()), format!("{} ({}:{})", p.msg, p.file, p.line));
                    }
                    return AddOutcome::Invalid;
                }
            };
            let fired = {
                let mut d = n.disk.lock().unwrap();
                d.fail_block_read_nth = None;
                let f = d.read_faults_fired;
                d.read_faults_fired = 0;
                f
            };
            if fired > 0 {
                r.fault("disk_read_error_during_add_block", fired);
            }
            let oc = res.as_ref().map(outcome_of).unwrap_or(AddOutcome::Invalid);
            trace.str(&format!("{:?}", oc));
            r.steps += 1;
            if !matches!(oc, AddOutcome::Added { .. }) {
                let after = snapshot(n, max_id);
                if let Some(what) = snap_diff(&before, &after) {
                    let sig = if fired > 0 {
                        "C04|disk-read-fault|state-not-restored".to_string()
                    } else {
                        format!("C04|trace-left|{}", what)
                    };
                    r.violate(
                        sig,
                        format!(
                            "block {} (id {}, {}) was not accepted ({:?}) but {} changed; tip before {:?} after {:?}",
                            crate::util::hex8(&w.recs[idx].hash), w.recs[idx].id, w.recs[idx].note, oc, what, before.tip.0, after.tip.0
                        ),
                    );
                }
            }
            oc
        }
        for i in std::iter::once(0usize).chain(prefix.iter().cloned()).chain(main.iter().cloned()) {
            let oc = deliver(&w, max_id, &mut n, i, &mut r, &mut trace, None);
            if oc != (AddOutcome::Added { longest: true }) {
                // honest chain refused: C07's business, not this scenario's
                r.discarded = true;
                r.probe("honest_chain_refused");
                r.trace_hash = trace.get();
                return r;
            }
        }
        let main_tip = n.tip();
        let mut rejected_in_validation = false;
        // delivery order of the candidate
        let second_first = plan.second_first && plan.main_len == 0 && cand.len() >= 3 && plan.bad_pos >= 2;
        let mut cand_order: Vec<(usize, usize)> = cand.iter().cloned().enumerate().collect();
        if second_first {
            cand_order.swap(0, 1);
            r.fault("candidate_second_block_delivered_first", 1);
        }
        for (j, ci) in cand_order.iter().map(|(j, ci)| (*j, ci)) {
            if second_first && j <= 1 {
                // the two swapped deliveries are judged by C03/C05 (a block before its parent); here they
                // only set the stage
                let bytes = w.recs[*ci].bytes.clone();
                let _ = crate::util::guarded(|| n.add_block_bytes(&bytes));
                continue;
            }
            let triggers = j + 1 > plan.main_len;
            let fault = if triggers { plan.disk_fault_nth } else { None };
            let oc = deliver(&w, max_id, &mut n, *ci, &mut r, &mut trace, fault);
            if !r.violations.is_empty() {
                break;
            }
            if triggers && j >= plan.bad_pos {
                match oc {
                    AddOutcome::Invalid => {
                        rejected_in_validation = true;
                        r.probe("reorg_attempt_failed_and_restored");
                        break;
                    }
                    AddOutcome::Added { longest } => {
                        if longest {
                            // a chain containing a block that is invalid by construction became the tip:
                            // that is C05's clause ("valid block by block"); recorded, not judged here
                            r.probe("invalid_chain_adopted");
                        }
                        break;
                    }
                    _ => break,
                }
            }
        }
        // liveness: the node still extends the chain it is on
        let _ = main_tip;
        if r.violations.is_empty() && w.by_hash.contains_key(&n.tip().1) {
            let tip_idx = *w.by_hash.get(&n.tip().1).unwrap();
            let mut cur = tip_idx;
            for _ in 0..plan.extra_after {
                match crate::util::guarded(|| w.honest_child(cur, &mut rng, 1, (w.recs[cur].id + 1) % 2 == 0, 2600, "after")) {
                    Ok(Ok(i)) => {
                        cur = i;
                        let oc = deliver(&w, max_id, &mut n, i, &mut r, &mut trace, None);
                        if oc != (AddOutcome::Added { longest: true }) {
                            // a read error during the reorganisation attempt is a known finding (blocks wound /
                            // unwound without their transactions); a chain that cannot be extended afterwards
                            // is one of its consequences
                            let faulted = r.faults.get("disk_read_error_during_add_block").cloned().unwrap_or(0) > 0;
                            r.violate(
                                if faulted { "C04|disk-read-fault|state-not-restored" } else { "C04|liveness|cannot-extend-after-rejection" },
                                format!("honest child of the tip refused after a rejected block: {:?}", oc),
                            );
                            break;
                        }
                    }
                    _ => break,
                }
            }
        }
        if rejected_in_validation {
            let mut d = Digest::new();
            d.u64(plan.main_len as u64)
                .u64(plan.cand_len as u64)
                .u64(plan.bad_pos as u64)
                .str(&plan.bad_kind)
                .u64(plan.disk_fault_nth.map(|x| x + 1).unwrap_or(0))
                .u64(plan.prune_after)
                .u64(second_first as u64);
            r.nontrivial.push(d.get());
        }
        r.state_hash = {
            let mut d = Digest::new();
            d.bytes(&n.tip().1).u64(n.utxo_keys().len() as u64);
            d.get()
        };
        r.trace_hash = trace.get();
        r
    }
    fn shrink(&self, plan: &Value) -> Vec<Value> {
        let p: Plan = match serde_json::from_value(plan.clone()) {
            Ok(p) => p,
            Err(_) => return vec![],
        };
        let mut out = vec![];
        if p.disk_fault_nth.is_some() {
            let mut q = p.clone();
            q.disk_fault_nth = None;
            out.push(q);
        }
        if p.extra_after > 0 {
            let mut q = p.clone();
            q.extra_after = 0;
            out.push(q);
        }
        if p.prefix > 0 {
            let mut q = p.clone();
            q.prefix -= 1;
            out.push(q);
        }
        if p.main_len > 0 && p.cand_len > 1 {
            let mut q = p.clone();
            q.main_len -= 1;
            q.cand_len -= 1;
            q.bad_pos = q.bad_pos.min(q.cand_len - 1);
            out.push(q);
        }
        if p.cand_len > p.main_len + 1 {
            let mut q = p.clone();
            q.cand_len -= 1;
            q.bad_pos = q.bad_pos.min(q.cand_len - 1);
            out.push(q);
        }
        if p.bad_pos > 0 {
            let mut q = p.clone();
            q.bad_pos -= 1;
            out.push(q);
        }
        if p.prune_after != 8 {
            let mut q = p.clone();
            q.prune_after = 8;
            out.push(q);
        }
        if p.bad_kind != "burnfee" {
            let mut q = p.clone();
            q.bad_kind = "burnfee".into();
            out.push(q);
        }
        out.into_iter().map(|p| serde_json::to_value(p).unwrap()).collect()
    }
}

/// block ring wrap-around: see Plan::ring_gp
fn ring_family(plan: &Plan) -> RunResult {
    let mut r = RunResult::default();
    let params = Params { genesis_period: plan.ring_gp, heartbeat: 1000, n_users: 3, slips_per_user: 4, base_amount: 1_000_000 };
    let mut rng = Rng::new(mix(plan.seed, 0x416e));
    let mut c = match crate::util::guarded(|| Chain::new(plan.seed, params.clone(), 8)) {
        Ok(Ok(c)) => c,
        _ => {
            r.discarded = true;
            return r;
        }
    };
    let k = plan.ring_k.max(4);
    // producer chain with ids 1..=k+1
    while c.tip_rec().id < k + 1 {
        let mut txs = vec![];
        let user = 1 + rng.usize_below(3);
        if let Some((t, _)) = c.payment(user, 1 + rng.usize_below(3), rng.usize_below(64), 0, 0, &[]) {
            txs.push(t);
        } else {
            let tag = c.tag();
            let ts = c.tip_rec().ts + tag;
            txs.push(make_tx(&c.keys[1].clone(), &[], &[(c.keys[1].pk, 0)], ts, &tag.to_le_bytes()));
        }
        let tip_hash = c.tip_rec().hash;
        let want = (c.tip_rec().id + 1) % 2 == 0;
        let gt = want || !c.node.bc.is_golden_ticket_count_valid(tip_hash, want, false, false);
        match crate::util::guarded(|| c.extend(txs, gt, 2300)) {
            Ok(Ok(_)) => {}
            _ => {
                // the producer refused its own block (C07's subject): nothing to offer here
                r.discarded = true;
                r.probe("ring_producer_refused");
                return r;
            }
        }
    }
    let rec_of = |id: u64| c.recs[(id - 1) as usize].clone();
    let max_id = k + 2;
    let mut n = Node::new(&c.cfg, &c.keys[2].clone());
    let mut trace = Digest::new();
    for id in 1..=k - 2 {
        let _ = n.add_block_bytes(&rec_of(id).bytes);
    }
    if n.tip().0 != k - 2 {
        r.discarded = true;
        r.probe("ring_history_not_adopted");
        return r;
    }
    // K before its parent, then the parent
    let _ = crate::util::guarded(|| n.add_block_bytes(&rec_of(k).bytes));
    let _ = crate::util::guarded(|| n.add_block_bytes(&rec_of(k - 1).bytes));
    r.fault("block_delivered_before_parent_then_parent", 1);
    let tip_before = n.tip();
    if tip_before.0 != k - 1 && tip_before.0 != k {
        // the out-of-order pair itself went wrong: orphan class (C03/C05), not this family's subject
        r.probe("ring_stage_not_reached");
        return r;
    }
    // an invalid child of K
    let good = {
        let mut b = saito_core::core::consensus::block::Block::deserialize_from_net(&rec_of(k + 1).bytes).expect("own block decodes");
        b.generate().expect("generates");
        b
    };
    let bad = match tamper_block(&good, "burnfee", &c.keys[0].clone()) {
        Some(b) => b,
        None => {
            r.discarded = true;
            return r;
        }
    };
    let bad_bytes = bad.serialize_for_net(saito_core::core::consensus::block::BlockType::Full);
    let before = snapshot(&n, max_id);
    saito_core::core::util::verif::set_step_budget(8 * (2 * (max_id + 2)) + 16);
    let res = crate::util::guarded(|| n.add_block_bytes(&bad_bytes));
    saito_core::core::util::verif::set_step_budget(u64::MAX);
    match res {
        Err(p) => {
            if p.step_budget {
                r.violate(format!("C04|does-not-return|{}", p.site()), "add_block exceeded its step budget (ring family)".to_string());
            } else {
                r.violate(format!("C04|panic|{}", p.site()), format!("{} ({}:{})", p.msg, p.file, p.line));
            }
            return r;
        }
        Ok(x) => {
            let oc = x.as_ref().map(outcome_of).unwrap_or(AddOutcome::Invalid);
            trace.str(&format!("{:?}", oc));
            r.steps += 1;
            if !matches!(oc, AddOutcome::Added { .. }) {
                let after = snapshot(&n, max_id);
                if let Some(what) = snap_diff(&before, &after) {
                    if std::env::var("VERIF_DEBUG").is_ok() {
                        eprintln!("index before {:?}", before.index.iter().map(|x| x.map(|h| crate::util::hex8(&h))).collect::<Vec<_>>());
                        eprintln!("index after  {:?}", after.index.iter().map(|x| x.map(|h| crate::util::hex8(&h))).collect::<Vec<_>>());
                    }
                    // one specific, known trace: the ring slot of the wound-then-unwound candidate block used to
                    // hold the block 2 x genesis_period below it; that entry is not put back
                    let ring = 2 * plan.ring_gp;
                    let only_displaced = what == "index"
                        && before.index.iter().zip(after.index.iter()).enumerate().all(|(i, (b, a))| {
                            let id = i as u64 + 1;
                            // only a block that was wound and then unwound by this call can have displaced an
                            // entry: that is block K, and only when the tip was still K-1 before the call
                            b == a || (b.is_some() && a.is_none() && tip_before.0 == k - 1 && id + ring == k)
                        });
                    if only_displaced {
                        r.violate(
                            "C04|trace-left|index|ring-slot-of-displaced-block",
                            format!("ring family (genesis period {}, K = {}): after the rejected candidate the longest-chain index entry of the block {} below it is gone (tip unchanged at {})", plan.ring_gp, k, ring, before.tip.0),
                        );
                        return r;
                    }
                    r.violate(
                        format!("C04|trace-left|{}", what),
                        format!("ring family (genesis period {}, K = {}): the invalid child of block {} was not accepted ({:?}) but {} changed; tip before {:?} after {:?}", plan.ring_gp, k, k, oc, what, before.tip.0, after.tip.0),
                    );
                    return r;
                }
                r.probe("ring_rejection_left_no_trace");
                let mut d = Digest::new();
                d.u64(plan.ring_gp).u64(k).u64(0xabcd);
                r.nontrivial.push(d.get());
            }
        }
    }
    // liveness: the honest child of K is adopted
    let oc = n.add_block_bytes(&rec_of(k + 1).bytes).as_ref().map(outcome_of);
    if oc != Some(AddOutcome::Added { longest: true }) || n.tip().0 != k + 1 {
        r.violate("C04|liveness|cannot-extend-after-rejection", format!("ring family (genesis period {}, K = {}): after the rejection the honest block {} is not adopted ({:?}, tip {})", plan.ring_gp, k, k + 1, oc, n.tip().0));
    }
    r.state_hash = trace.get();
    r.trace_hash = trace.get();
    r
}
