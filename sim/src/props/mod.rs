pub mod c01;
pub mod c02;
pub mod c03;
pub mod c04;
pub mod c05;
pub mod c06;
pub mod c07;
pub mod c08;
pub mod c09;
pub mod c10;
pub mod c11;
pub mod c12;
pub mod c13;
pub mod c14;
pub mod c15;
pub mod c16;
pub mod c17;
pub mod c18;
pub mod c19;
pub mod c20;

use crate::framework::Scenario;

pub fn all() -> Vec<&'static dyn Scenario> {
    vec![&c01::C01, &c02::C02, &c03::C03, &c04::C04, &c05::C05, &c06::C06, &c07::C07, &c08::C08, &c09::C09, &c10::C10, &c11::C11, &c12::C12, &c13::C13, &c14::C14, &c15::C15, &c16::C16, &c17::C17, &c18::C18, &c19::C19, &c20::C20]
}

pub fn by_id(id: &str) -> Option<&'static dyn Scenario> {
    all().into_iter().find(|s| s.id() == id)
}
