pub mod c03;

use crate::framework::Scenario;

pub fn all() -> Vec<&'static dyn Scenario> {
    vec![&c03::C03]
}

pub fn by_id(id: &str) -> Option<&'static dyn Scenario> {
    all().into_iter().find(|s| s.id() == id)
}
