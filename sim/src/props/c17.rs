//! C17 — the handshake authenticates the peer's key.
//!
//! Honest nodes A and B (real routing processors, real Peer/Network handshake code) and an
//! attacker M who *is* the network between them: A dials M, M dials B, and M may open further
//! connections to both. M can forward, drop, delay, replay, reflect and redirect observed
//! messages, answer with its own key, answer unsolicited, send wrong versions, re-challenge,
//! disconnect — but holds no honest private key. A provenance monitor on each honest node judges
//! every transition to Connected.

use saito_core::core::consensus::peers::peer::PeerStatus;
use saito_core::core::msg::handshake::{HandshakeChallenge, HandshakeResponse};
use saito_core::core::msg::message::Message;
use saito_core::core::process::version::Version;
use saito_core::core::util::crypto::{sign, verify};
use serde::{Deserialize, Serialize};
use serde_json::Value;

use crate::framework::*;
use crate::l2::*;
use crate::rng::{mix, Rng};
use crate::simcfg::SimConfig;
use crate::util::{block_on, Digest};
use crate::world::*;

pub struct C17;

#[derive(Clone, Debug, Serialize, Deserialize)]
pub struct Move {
    pub k: String,
    pub a: u64,
    pub b: u64,
}

#[derive(Clone, Debug, Serialize, Deserialize)]
pub struct Plan {
    pub seed: u64,
    pub moves: Vec<Move>,
    /// bit 0: node A runs in lite (SPV) mode, bit 1: node B does
    #[serde(default)]
    pub lite: u8,
}

pub const KINDS: &[&str] = &[
    "fwd", "fwd", "fwd", "fwd", "drop", "replay", "reflect", "own-response", "unsolicited", "wrong-version", "challenge", "open", "close", "redirect",
    "self-signed", "sign-other-conn-challenge", "sign-used-challenge", "redial", "redial",
];

fn gen(seed: u64, tier: Tier) -> Plan {
    let mut rng = Rng::new(seed);
    let n = rng.range(2, if tier == Tier::Quick { 8 } else { 12 });
    let style = rng.below(3);
    let moves = (0..n)
        .map(|i| {
            let k = match style {
                0 if i < 4 => "fwd".to_string(),
                1 if i == 0 => "open".to_string(),
                _ => rng.pick(KINDS).to_string(),
            };
            Move { k, a: rng.below(8), b: rng.below(8) }
        })
        .collect();
    let lite = if rng.chance(1, 3) { 1 + rng.below(3) as u8 } else { 0 };
    Plan { seed, moves, lite }
}

/// per honest node: challenges it sent per connection (peer index), outstanding flag
#[derive(Default)]
struct Monitor {
    /// (node, peer index) -> list of (challenge, used)
    sent: Vec<((usize, u64), [u8; 32], bool)>,
    /// authenticated: (node, peer index) -> key
    auth: Vec<((usize, u64), [u8; 33])>,
    /// where address_to_peers[key] is expected to point: the connection of the latest valid authentication
    map: Vec<(usize, [u8; 33], u64)>,
}

fn peer_state(sim: &Sim, n: usize, idx: u64) -> Option<(bool, Option<[u8; 33]>)> {
    let peers = block_on(sim.nodes[n].peer_lock.read());
    let p = peers.index_to_peers.get(&idx)?;
    Some((matches!(p.peer_status, PeerStatus::Connected), p.public_key))
}

impl Scenario for C17 {
    fn id(&self) -> &'static str {
        "C17"
    }
    fn meta(&self) -> Meta {
        Meta {
            level: "exploration",
            rule: "run = honest nodes A (dials out through its static-peer path) and B (accepts connections), real RoutingThread/Network/Peer handshake code on both, attacker M in the middle of every connection plus up to 3 extra connections of its own; 2..8/12 attacker moves from {forward, drop, replay an observed message on the same or another connection, reflect an observed challenge back as a HandshakeChallenge, redirect a response to another connection, respond with own key, respond unsolicited, wrong-version response, send own challenge, open connection, close connection, let time pass so that A redials its static peer on the same peer index (challenges of the closed connection are void)}; after every move the network runs to quiescence. Monitor (after every delivery to an honest node): a peer on connection c becomes Connected under K only if the delivered message is a response whose signature verifies under K over a challenge this node itself sent on c and that was still outstanding; a challenge authenticates at most once; K is never the node's own key; a response stating a core version with another major/minor number never yields a connected peer (a third of the runs put A, B or both in lite/SPV mode); the key index (address_to_peers) never names a connected peer that holds another key; an authenticated (c,K) stays Connected with K and address_to_peers[K]==c while messages arrive on other connections. A faithful relay of the honest peer's answer is not flagged. distinct_nontrivial = distinct move sequences during which >= 1 challenge was outstanding when M acted.",
            real: &["RoutingThread::process_network_event", "Network::handle_new_peer/handle_handshake_challenge/handle_handshake_response", "Peer::initiate_handshake/handle_handshake_challenge/handle_handshake_response", "PeerCollection", "Message/Handshake codecs", "rate limiters"],
            stubs: &["SimNet with an attacker-controlled relay", "SimClock", "event-granularity scheduler"],
            assumptions: &["attacker cannot forge signatures (it only signs with its own key)", "sign/verify primitives trusted by the monitor"],
        }
    }
    fn budget(&self, tier: Tier) -> Budget {
        match tier {
            Tier::Quick => Budget { max_runs: 400_000, wall_s: 40 },
            Tier::Thorough => Budget { max_runs: 2_000_000, wall_s: 420 },
        }
    }
    fn generate(&self, seed: u64, index: u64, tier: Tier) -> Value {
        serde_json::to_value(gen(derive_run_seed(seed, "C17", index), tier)).unwrap()
    }
    fn execute(&self, plan: &Value) -> RunResult {
        let plan: Plan = serde_json::from_value(plan.clone()).expect("plan");
        let mut r = RunResult::default();
        let ka = derive_key(plan.seed, 1);
        let kb = derive_key(plan.seed, 2);
        let km = derive_key(plan.seed, 3);
        let mut sim = Sim::new(mix(plan.seed, 17), TS0);
        let opts = NodeOpts::default();
        let mut cfg_a = SimConfig::new(1000, 1000);
        cfg_a.peers = vec![static_peer("m")];
        cfg_a.spv = plan.lite & 1 != 0;
        let mut cfg_b = SimConfig::new(1000, 1000);
        cfg_b.spv = plan.lite & 2 != 0;
        let a = sim.add_node(&ka, &cfg_a, &opts);
        let b = sim.add_node(&kb, &cfg_b, &opts);
        sim.init_node(a, false);
        sim.init_node(b, false);
        let own_key = [ka.pk, kb.pk];
        // A dials out (timer path), M accepts; M dials B
        sim.advance(2100);
        sim.tick(a, P_ROUTING);
        let pend: Vec<(usize, u64)> = sim.pending_connects.drain(..).collect();
        let mut conns: Vec<usize> = vec![];
        for (n, idx) in pend {
            conns.push(sim.connect_out_external(n, idx, 0));
        }
        let (c2, _) = sim.connect_external(0, b);
        conns.push(c2);
        let mut mon = Monitor::default();
        let mut observed: Vec<(usize, Vec<u8>)> = vec![]; // (conn, bytes) everything M has seen
        let mut pending: Vec<(usize, Vec<u8>)> = vec![]; // not yet forwarded/dropped
        let mut last_challenge_on: Vec<(usize, [u8; 32])> = vec![];
        let mut outstanding_when_acting = false;
        let mut trace = Digest::new();
        let core_version = saito_core::core::process::version::read_pkg_version();

        // run the network to quiescence, feeding the monitor with every delivery to an honest node
        let mut settle = |sim: &mut Sim, mon: &mut Monitor, r: &mut RunResult, observed: &mut Vec<(usize, Vec<u8>)>, pending: &mut Vec<(usize, Vec<u8>)>, last_challenge_on: &mut Vec<(usize, [u8; 32])>| {
            let mut guard = 0;
            loop {
                guard += 1;
                if guard > 5000 {
                    break;
                }
                let acts = sim.enabled();
                if acts.is_empty() {
                    break;
                }
                // deliveries to honest nodes are monitored: do NetIn one at a time and look before/after
                let act = acts[sim.rng.usize_below(acts.len())].clone();
                if let Action::NetIn(n) = act {
                    // snapshot of all peers before
                    let before: Vec<(u64, bool, Option<[u8; 33]>)> = {
                        let peers = block_on(sim.nodes[n].peer_lock.read());
                        peers.index_to_peers.iter().map(|(i, p)| (*i, matches!(p.peer_status, PeerStatus::Connected), p.public_key)).collect()
                    };
                    let incoming = match sim.nodes[n].net_in.front() {
                        Some(saito_core::core::io::network_event::NetworkEvent::IncomingNetworkMessage { peer_index, buffer }) => Some((*peer_index, buffer.clone())),
                        _ => None,
                    };
                    let disconnected: Option<u64> = match sim.nodes[n].net_in.front() {
                        Some(saito_core::core::io::network_event::NetworkEvent::PeerDisconnected { peer_index, .. }) => Some(*peer_index),
                        _ => None,
                    };
                    sim.apply(act);
                    // a challenge lives and dies with the connection it was issued on: once the node has
                    // seen the connection go away, its outstanding challenges can authenticate nobody, even
                    // if the node re-uses the peer index for the next connection to the same static peer
                    if let Some(pi) = disconnected {
                        for s in mon.sent.iter_mut() {
                            if s.0 == (n, pi) {
                                s.2 = true;
                            }
                        }
                    }
                    let after: Vec<(u64, bool, Option<[u8; 33]>)> = {
                        let peers = block_on(sim.nodes[n].peer_lock.read());
                        peers.index_to_peers.iter().map(|(i, p)| (*i, matches!(p.peer_status, PeerStatus::Connected), p.public_key)).collect()
                    };
                    // is the delivered message itself a valid answer to an outstanding challenge of this connection?
                    let mut valid_response: Option<(u64, [u8; 33])> = None;
                    let mut incompatible = false;
                    if let Some((pi, buf)) = &incoming {
                        if let Ok(Message::HandshakeResponse(resp)) = Message::deserialize(buf.clone()) {
                            // an answer that states a core version with another major / minor number
                            // authenticates nobody, whoever signed it
                            let mine = block_on(sim.nodes[n].wallet_lock.read()).core_version;
                            incompatible = resp.core_version.major != mine.major || resp.core_version.minor != mine.minor;
                            for s in mon.sent.iter_mut() {
                                if s.0 == (n, *pi) && !s.2 && verify(&s.1, &resp.signature, &resp.public_key) {
                                    s.2 = true;
                                    valid_response = Some((*pi, resp.public_key));
                                    break;
                                }
                            }
                        }
                    }
                    if let Some((pi, k)) = valid_response {
                        // accepted (again) under k on that connection: the mapping may follow
                        let acc = after.iter().any(|x| x.0 == pi && x.1 && x.2 == Some(k));
                        if acc {
                            mon.map.retain(|m| !(m.0 == n && m.1 == k));
                            mon.map.push((n, k, pi));
                            if !mon.auth.iter().any(|a| a.0 == (n, pi) && a.1 == k) {
                                mon.auth.push(((n, pi), k));
                            }
                        }
                    }
                    // newly connected peers
                    for (idx, conn, key) in after.iter() {
                        let was = before.iter().find(|x| x.0 == *idx).map(|x| x.1).unwrap_or(false);
                        if *conn && !was {
                            let key = match key {
                                Some(k) => *k,
                                None => {
                                    r.violate("C17|connected-without-key", format!("node{} peer {} is Connected without a public key", n, idx));
                                    continue;
                                }
                            };
                            if key == own_key[n] {
                                r.violate("C17|authenticated-as-itself", format!("node{} marked connection {} as connected under its own public key (reflected challenge)", n, idx));
                                continue;
                            }
                            if incompatible && incoming.as_ref().map(|x| x.0) == Some(*idx) {
                                r.violate(
                                    "C17|connected-despite-incompatible-version",
                                    format!("node{} ({}) marked connection {} as connected on a response that states an incompatible core version", n, if (plan.lite >> n) & 1 != 0 { "lite" } else { "full" }, idx),
                                );
                                continue;
                            }
                            // provenance
                            let ok = valid_response == Some((*idx, key));
                            if !ok {
                                r.violate(
                                    "C17|connected-without-valid-response",
                                    format!("node{} marked connection {} as connected under a key without a response on that connection signed by that key over an outstanding challenge it had sent there", n, idx),
                                );
                            }
                        }
                    }
                    // a connection's entry carries a public key only once that key has authenticated on it (a
                    // refused response leaves no key behind: the entry would later be collected under that key)
                    {
                        let peers = block_on(sim.nodes[n].peer_lock.read());
                        for (idx, p) in peers.index_to_peers.iter() {
                            if let Some(k) = p.public_key {
                                if !mon.auth.iter().any(|a| a.0 == (n, *idx) && a.1 == k) {
                                    r.violate(
                                        "C17|key-recorded-without-authentication",
                                        format!("node{}: the entry of connection {} carries a public key that never authenticated on that connection (status connected: {})", n, idx, matches!(p.peer_status, PeerStatus::Connected)),
                                    );
                                }
                            }
                        }
                    }
                    // the key index never names a connected peer that holds another key
                    {
                        let peers = block_on(sim.nodes[n].peer_lock.read());
                        for (k, idx) in peers.address_to_peers.iter() {
                            if let Some(p) = peers.index_to_peers.get(idx) {
                                if matches!(p.peer_status, PeerStatus::Connected) && p.public_key.is_some() && p.public_key != Some(*k) {
                                    r.violate(
                                        "C17|key-index-names-peer-of-another-key",
                                        format!("node{}: address_to_peers maps a key to connection {} which is connected under a different key (that key never signed a challenge of this connection)", n, idx),
                                    );
                                }
                            }
                        }
                    }
                    // authenticated peers undisturbed by traffic on other connections (a second *valid*
                    // authentication under the same key is not one of the listed invalid responses)
                    let valid_auth_now: Vec<[u8; 33]> = valid_response.iter().map(|x| x.1).collect();
                    if let Some((pi, _)) = &incoming {
                        for ((an, aidx), k) in mon.auth.iter() {
                            if *an != n || aidx == pi || valid_auth_now.contains(k) {
                                continue;
                            }
                            let now = after.iter().find(|x| x.0 == *aidx);
                            let before_conn = before.iter().find(|x| x.0 == *aidx).map(|x| x.1).unwrap_or(false);
                            if !before_conn {
                                continue;
                            }
                            let still = now.map(|x| x.1 && x.2 == Some(*k)).unwrap_or(false);
                            let mapped = {
                                let peers = block_on(sim.nodes[n].peer_lock.read());
                                peers.address_to_peers.get(k).cloned()
                            };
                            let expected = mon.map.iter().find(|m| m.0 == n && m.1 == *k).map(|m| m.2);
                            if !still {
                                r.violate("C17|authenticated-peer-disturbed", format!("node{}: authenticated peer on connection {} lost its state after a message on connection {}", n, aidx, pi));
                            } else if mapped != expected {
                                r.violate("C17|key-mapping-hijacked", format!("node{}: address_to_peers for an authenticated key moved from connection {:?} to {:?} after a message on connection {} that authenticated nobody", n, expected, mapped, pi));
                            }
                        }
                    }
                } else {
                    sim.apply(act);
                }
                // collect what reached M and record challenges the honest nodes sent
                for (c, m) in sim.take_ext_inbox(0) {
                    let (n, idx) = match (&sim.conns[c].a, &sim.conns[c].b) {
                        (Endpoint::Node(n, i), _) => (*n, *i),
                        (_, Endpoint::Node(n, i)) => (*n, *i),
                        _ => continue,
                    };
                    match Message::deserialize(m.clone()) {
                        Ok(Message::HandshakeChallenge(ch)) => {
                            mon.sent.push(((n, idx), ch.challenge, false));
                            last_challenge_on.push((c, ch.challenge));
                        }
                        Ok(Message::HandshakeResponse(resp)) => {
                            if resp.challenge != [0; 32] {
                                mon.sent.push(((n, idx), resp.challenge, false));
                                last_challenge_on.push((c, resp.challenge));
                            }
                        }
                        _ => {}
                    }
                    observed.push((c, m.clone()));
                    pending.push((c, m));
                }
            }
        };
        settle(&mut sim, &mut mon, &mut r, &mut observed, &mut pending, &mut last_challenge_on);
        let mk_response = |sk: &[u8; 32], pk: &[u8; 33], challenge: &[u8; 32], my_challenge: [u8; 32], version: Version| -> Vec<u8> {
            Message::HandshakeResponse(HandshakeResponse {
                public_key: *pk,
                signature: sign(challenge, sk),
                is_lite: false,
                block_fetch_url: "http://m".to_string(),
                challenge: my_challenge,
                services: vec![],
                wallet_version: version,
                core_version: version,
            })
            .serialize()
        };
        for (mi, mv) in plan.moves.iter().enumerate() {
            if !r.violations.is_empty() {
                break;
            }
            if mon.sent.iter().any(|s| !s.2) {
                outstanding_when_acting = true;
            }
            let nconn = conns.len().max(1);
            let pick_conn = |x: u64| conns[(x as usize) % nconn];
            // the "other side" of the relayed pair (c1 <-> c2)
            let other = |c: usize| -> usize {
                if conns.len() >= 2 {
                    if c == conns[0] {
                        conns[1]
                    } else if c == conns[1] {
                        conns[0]
                    } else {
                        c
                    }
                } else {
                    c
                }
            };
            trace.str(&mv.k).u64(mv.a).u64(mv.b);
            match mv.k.as_str() {
                "fwd" => {
                    if !pending.is_empty() {
                        let (c, m) = pending.remove(0);
                        sim.ext_send(other(c), m);
                        r.fault("forward", 1);
                    }
                }
                "drop" => {
                    if !pending.is_empty() {
                        pending.remove(0);
                        r.fault("drop", 1);
                    }
                }
                "replay" => {
                    if !observed.is_empty() {
                        let (_, m) = observed[(mv.a as usize) % observed.len()].clone();
                        sim.ext_send(pick_conn(mv.b), m);
                        r.fault("replay", 1);
                    }
                }
                "redirect" => {
                    if !pending.is_empty() {
                        let (_, m) = pending.remove(0);
                        sim.ext_send(pick_conn(mv.b), m);
                        r.fault("redirect", 1);
                    }
                }
                "reflect" => {
                    if !last_challenge_on.is_empty() {
                        let (_, ch) = last_challenge_on[(mv.a as usize) % last_challenge_on.len()];
                        sim.ext_send(pick_conn(mv.b), Message::HandshakeChallenge(HandshakeChallenge { challenge: ch }).serialize());
                        r.fault("reflect", 1);
                    }
                }
                "own-response" => {
                    let c = pick_conn(mv.b);
                    if let Some((_, ch)) = last_challenge_on.iter().rev().find(|x| x.0 == c) {
                        sim.ext_send(c, mk_response(&km.sk, &km.pk, ch, [7; 32], core_version));
                        r.fault("own_key_response", 1);
                    }
                }
                "self-signed" => {
                    // signature over the challenge carried in the response itself (attacker-chosen)
                    let c = pick_conn(mv.b);
                    let x = [0x5a; 32];
                    sim.ext_send(c, mk_response(&km.sk, &km.pk, &x, x, core_version));
                    r.fault("self_signed_response", 1);
                }
                "sign-other-conn-challenge" => {
                    // a properly signed answer to a challenge that was issued on a *different* connection
                    let c = pick_conn(mv.b);
                    if let Some((_, ch)) = last_challenge_on.iter().rev().find(|x| x.0 != c) {
                        sim.ext_send(c, mk_response(&km.sk, &km.pk, ch, [8; 32], core_version));
                        r.fault("other_connection_challenge_response", 1);
                    }
                }
                "sign-used-challenge" => {
                    // answer again to the oldest challenge seen on this connection (possibly already used)
                    let c = pick_conn(mv.b);
                    if let Some((_, ch)) = last_challenge_on.iter().find(|x| x.0 == c) {
                        sim.ext_send(c, mk_response(&km.sk, &km.pk, ch, [6; 32], core_version));
                        r.fault("used_challenge_response", 1);
                    }
                }
                "unsolicited" => {
                    let c = pick_conn(mv.b);
                    sim.ext_send(c, mk_response(&km.sk, &km.pk, &[9; 32], [0; 32], core_version));
                    r.fault("unsolicited_response", 1);
                }
                "wrong-version" => {
                    let c = pick_conn(mv.b);
                    if let Some((_, ch)) = last_challenge_on.iter().rev().find(|x| x.0 == c) {
                        sim.ext_send(c, mk_response(&km.sk, &km.pk, ch, [0; 32], Version::new(core_version.major, core_version.minor.wrapping_add(7), 0)));
                        r.fault("wrong_version_response", 1);
                    }
                }
                "challenge" => {
                    // (every third one is the all-zero challenge: a signature over it is what a verifier that
                    // falls back to a default challenge would accept)
                    let ch = if mv.a % 3 == 0 { [0u8; 32] } else { [mi as u8 + 1; 32] };
                    sim.ext_send(pick_conn(mv.b), Message::HandshakeChallenge(HandshakeChallenge { challenge: ch }).serialize());
                    r.fault("attacker_challenge", 1);
                }
                "open" => {
                    if conns.len() < 5 {
                        let node = if mv.a % 2 == 0 { a } else { b };
                        let (c, _) = sim.connect_external(0, node);
                        conns.push(c);
                        r.fault("open_connection", 1);
                    }
                }
                "close" => {
                    let c = pick_conn(mv.b);
                    sim.close_conn(c);
                    r.fault("close_connection", 1);
                }
                "redial" => {
                    // time passes; A's reconnection timer dials its static peer again (same peer index,
                    // new connection) and M answers the call
                    sim.advance(2100 + 10_000 * (mv.a % 3));
                    sim.tick(a, P_ROUTING);
                    let pend: Vec<(usize, u64)> = sim.pending_connects.drain(..).collect();
                    for (n, idx) in pend {
                        let c = sim.connect_out_external(n, idx, 0);
                        if conns.is_empty() {
                            conns.push(c);
                        } else {
                            conns[0] = c;
                        }
                        r.fault("static_peer_redialled", 1);
                    }
                }
                _ => {}
            }
            settle(&mut sim, &mut mon, &mut r, &mut observed, &mut pending, &mut last_challenge_on);
            if let Some((n, what, p)) = sim.panics.first() {
                r.violate(format!("C17|panic|{}|{}", what, p.site()), format!("node{} {}: {} ({}:{})", n, what, p.msg, p.file, p.line));
                break;
            }
        }
        r.steps = sim.steps;
        r.probe_n("peers_authenticated", mon.auth.len() as u64);
        if outstanding_when_acting {
            let mut d = Digest::new();
            for m in &plan.moves {
                d.str(&m.k).u64(m.a % 5).u64(m.b % 5);
            }
            r.nontrivial.push(d.get());
        }
        r.schedule_hash = sim.schedule_digest.get();
        trace.u64(sim.schedule_digest.get()).u64(mon.auth.len() as u64);
        r.state_hash = trace.get();
        r.trace_hash = trace.get();
        r
    }
    fn shrink(&self, plan: &Value) -> Vec<Value> {
        let p: Plan = match serde_json::from_value(plan.clone()) {
            Ok(p) => p,
            Err(_) => return vec![],
        };
        let mut out = vec![];
        if p.moves.len() > 1 {
            let mut q = p.clone();
            q.moves.pop();
            out.push(q);
        }
        for i in 0..p.moves.len() {
            if p.moves.len() > 1 {
                let mut q = p.clone();
                q.moves.remove(i);
                out.push(q);
            }
        }
        out.into_iter().map(|p| serde_json::to_value(p).unwrap()).collect()
    }
}
