//! C13 — automatic rebroadcast preserves ownership at the retention-window edge.
//!
//! Histories of 2-4 windows on a real producer (genesis period 3-8) with spent / unspent / dust
//! outputs and varying fee levels; for every accepted block past the first window the block's
//! rebroadcast transactions are matched against the reference ledger's unspent outputs of the
//! block that just left the window. Outputs older than the window are then offered as inputs to
//! pool and block validation.

use saito_core::core::consensus::slip::SlipType;
use saito_core::core::consensus::transaction::{Transaction, TransactionType};
use serde::{Deserialize, Serialize};
use serde_json::Value;

use crate::framework::*;
use crate::rng::{mix, Rng};
use crate::util::Digest;
use crate::world::*;

pub struct C13;

#[derive(Clone, Debug, Serialize, Deserialize)]
pub struct BlockOp {
    pub ntx: usize,
    pub fee: u64,
    pub dust: u64,
    pub gt: bool,
    pub dt: u64,
    /// one of the block's transactions creates an NFT (Bound-Normal-Bound triple); 0 = none, else the
    /// deposit class of the payload slip (1 = tiny, 2 = half of the input, 3 = nearly all)
    #[serde(default)]
    pub nft: u8,
}

#[derive(Clone, Debug, Serialize, Deserialize)]
pub struct Plan {
    pub seed: u64,
    pub gp: u64,
    pub base_amount: u64,
    pub ops: Vec<BlockOp>,
    /// after the history: try to spend an output that is older than the window ("pool"/"block"/"")
    pub expired_spend: String,
    /// at this operation the chain forks: a sibling block reaches the node first and is reorganised
    /// away by the next block, so that a height holds an orphan stored before the longest-chain block
    #[serde(default)]
    pub fork_at: Option<usize>,
}

fn gen(seed: u64, tier: Tier) -> Plan {
    let mut rng = Rng::new(seed);
    let gp = rng.range(3, 8);
    let windows = if tier == Tier::Quick { rng.range(2, 3) } else { rng.range(2, 4) };
    let n = (gp * windows + rng.below(gp)) as usize;
    let fee_style = rng.below(3);
    let mut ops = vec![];
    for i in 0..n {
        let fee = match fee_style {
            0 => 0,
            1 => rng.below(3_000),
            _ => 20_000 + rng.below(300_000),
        };
        ops.push(BlockOp {
            ntx: rng.range(1, 4) as usize,
            fee,
            dust: if rng.chance(1, 2) { rng.range(1, 2_000) } else { 0 },
            gt: i % 2 == 1,
            dt: 2000 + rng.below(1500),
            nft: if rng.chance(1, 4) { rng.range(1, 3) as u8 } else { 0 },
        });
    }
    Plan {
        seed,
        gp,
        base_amount: *rng.pick(&[10_000u64, 1_000_000, 500_000_000]),
        ops,
        expired_spend: rng.pick(&["pool", "block", "block", ""]).to_string(),
        // only at heights that do not rebroadcast yet (id <= gp+1): the fork block is built while the
        // node's ledger stands on the sibling, which is harmless only without a rebroadcast section
        fork_at: if rng.chance(1, 2) { Some(rng.usize_below(gp as usize)) } else { None },
    }
}

/// payment with an optional extra dust output to the payer
fn payment_with_dust(c: &mut Chain, rng: &mut Rng, fee: u64, dust: u64, used: &mut Vec<UtxoKey>) -> Option<Transaction> {
    let n_users = c.params.n_users;
    let user = 1 + rng.usize_below(n_users);
    let to = 1 + rng.usize_below(n_users);
    let mine: Vec<SlipRef> = c.spendable(&c.keys[user].pk).into_iter().filter(|s| !used.contains(&s.key())).collect();
    if mine.is_empty() {
        return None;
    }
    let inp = mine[rng.usize_below(mine.len())].clone();
    used.push(inp.key());
    let fee = fee.min(inp.amount / 4);
    let dust = dust.min(inp.amount / 4);
    let rest = inp.amount - fee - dust;
    let a = rest / 3;
    let mut outs = vec![];
    if a > 0 {
        outs.push((c.keys[to].pk, a));
    }
    outs.push((c.keys[user].pk, rest - a));
    if dust > 0 {
        outs.push((c.keys[user].pk, dust));
    }
    let tag = c.tag();
    let ts = c.tip_rec().ts + tag;
    Some(make_tx(&c.keys[user].clone(), &[inp], &outs, ts, &tag.to_le_bytes()))
}

/// a user turns one of its outputs into an NFT whose payload slip goes to another user
fn nft_creation(c: &mut Chain, rng: &mut Rng, fee: u64, class: u8, used: &mut Vec<UtxoKey>) -> Option<Transaction> {
    let n_users = c.params.n_users;
    let user = 1 + rng.usize_below(n_users);
    let to = 1 + rng.usize_below(n_users);
    let mine: Vec<SlipRef> = c.spendable(&c.keys[user].pk).into_iter().filter(|s| !used.contains(&s.key()) && s.amount > 100 && s.stype == SlipType::Normal).collect();
    if mine.is_empty() {
        return None;
    }
    let inp = mine[rng.usize_below(mine.len())].clone();
    used.push(inp.key());
    let fee = fee.min(inp.amount / 4);
    let rest = inp.amount - fee;
    let deposit = match class {
        1 => 1 + rng.below(2_000).min(rest / 2),
        2 => rest / 2,
        _ => rest - rest / 50,
    };
    let tag = c.tag();
    let ts = c.tip_rec().ts + tag;
    Some(make_nft_tx(&c.keys[user].clone(), &inp, &c.keys[to].pk.clone(), deposit, rest - deposit, ts, &tag.to_le_bytes()))
}

fn same_output(a: &SlipRef, b: &SlipRef) -> bool {
    a.pk == b.pk && a.block_id == b.block_id && a.tx_ordinal == b.tx_ordinal && a.slip_index == b.slip_index
}

/// the per-block oracle. `before` = reference ledger just before `rec`; `expiring` = record of the
/// block at id - (gp+1) on the same chain
fn check_rebroadcast(r: &mut RunResult, rec: &BlockRec, expiring: &BlockRec, before: &RefLedger, header: (u64, u64), fee_level: u64, multiplier_is_one: bool) -> (u64, u64) {
    let (total_fees_atr, total_payout_atr) = header;
    // the rebroadcast fee of an output: serialized size of the transaction that created it x the fee level
    // (average fee per byte) recorded in the parent of the rebroadcasting block
    let tx_sizes: Vec<u64> = match saito_core::core::consensus::block::Block::deserialize_from_net(&expiring.bytes) {
        Ok(b) => b.transactions.iter().map(|t| t.get_serialized_size() as u64).collect(),
        Err(_) => vec![],
    };
    let fee_of = |s: &SlipRef| -> Option<u128> { tx_sizes.get(s.tx_ordinal as usize).map(|sz| *sz as u128 * fee_level as u128) };
    // U: outputs of the expiring block still unspent
    let mut u: Vec<SlipRef> = vec![];
    for tx in &expiring.txs {
        for o in &tx.outputs {
            if o.amount > 0 && o.stype != SlipType::Bound && before.utxo.contains_key(&o.key()) {
                u.push(o.clone());
            }
        }
    }
    // NFT groups of the expiring block: [Bound, payload, Bound] at consecutive output positions
    let mut triples: Vec<(SlipRef, SlipRef, SlipRef)> = vec![];
    for tx in &expiring.txs {
        let o = &tx.outputs;
        let mut i = 0;
        while i + 2 < o.len() {
            if o[i].stype == SlipType::Bound && o[i + 1].stype != SlipType::Bound && o[i + 2].stype == SlipType::Bound {
                triples.push((o[i].clone(), o[i + 1].clone(), o[i + 2].clone()));
                i += 3;
            } else {
                i += 1;
            }
        }
    }
    let atrs: Vec<&TxRec> = rec.txs.iter().filter(|t| t.ttype == TransactionType::ATR).collect();
    let mut matched = vec![false; u.len()];
    let mut sum_out: u128 = 0;
    let mut rebroadcast = 0u64;
    for (ai, t) in atrs.iter().enumerate() {
        let inp = match t.inputs.iter().find(|s| s.stype != SlipType::Bound) {
            Some(i) => i,
            None => {
                r.violate("C13|atr|no-input", format!("block {} rebroadcast tx {} has no value input", rec.id, ai));
                return (0, 0);
            }
        };
        match u.iter().position(|x| same_output(x, inp)) {
            None => {
                r.violate(
                    "C13|atr|rebroadcasts-foreign-output",
                    format!("block {} rebroadcasts {}-{}-{} which is not an unspent output of block {}", rec.id, inp.block_id, inp.tx_ordinal, inp.slip_index, expiring.id),
                );
                return (0, 0);
            }
            Some(p) => {
                if matched[p] {
                    r.violate("C13|atr|rebroadcast-twice", format!("block {} rebroadcasts output {}-{}-{} twice", rec.id, inp.block_id, inp.tx_ordinal, inp.slip_index));
                    return (0, 0);
                }
                matched[p] = true;
                let outs: Vec<&SlipRef> = t.outputs.iter().filter(|s| s.stype == SlipType::ATR).collect();
                if outs.len() != 1 || outs[0].pk != u[p].pk {
                    r.violate("C13|atr|owner-changed", format!("block {}: rebroadcast of {}-{}-{} does not pay exactly one ATR output to the same owner", rec.id, inp.block_id, inp.tx_ordinal, inp.slip_index));
                    return (0, 0);
                }
                if outs[0].amount == 0 || (outs[0].amount as u128) > (inp.amount as u128) {
                    r.violate("C13|atr|amount", format!("block {}: rebroadcast output {} vs (inflated) input {}", rec.id, outs[0].amount, inp.amount));
                    return (0, 0);
                }
                if inp.amount < u[p].amount {
                    r.violate("C13|atr|input-shrunk", format!("block {}: rebroadcast input {} below original {}", rec.id, inp.amount, u[p].amount));
                    return (0, 0);
                }
                if let Some((s1, _, s3)) = triples.iter().find(|(_, pl, _)| same_output(pl, &u[p])) {
                    // the group travels together: both bound slips reappear unchanged around the payload
                    let ok = t.outputs.len() == 3
                        && t.outputs[0].stype == SlipType::Bound
                        && t.outputs[0].pk == s1.pk
                        && t.outputs[0].amount == s1.amount
                        && t.outputs[1].stype == SlipType::ATR
                        && t.outputs[2].stype == SlipType::Bound
                        && t.outputs[2].pk == s3.pk
                        && t.outputs[2].amount == s3.amount
                        && t.inputs.len() == 3
                        && same_output(&t.inputs[0], s1)
                        && same_output(&t.inputs[2], s3);
                    if !ok {
                        r.violate("C13|atr|nft-group-broken", format!("block {}: rebroadcast of the NFT group around {}-{}-{} does not carry both bound slips unchanged", rec.id, inp.block_id, inp.tx_ordinal, inp.slip_index));
                        return (0, 0);
                    }
                    r.probe("nft_group_rebroadcast");
                } else if t.outputs.iter().any(|s| s.stype == SlipType::Bound) || t.inputs.iter().any(|s| s.stype == SlipType::Bound) {
                    r.violate("C13|atr|bound-slip-on-plain-rebroadcast", format!("block {}: rebroadcast of plain output {}-{}-{} carries bound slips", rec.id, inp.block_id, inp.tx_ordinal, inp.slip_index));
                    return (0, 0);
                }
                if let Some(fee) = fee_of(&u[p]) {
                    let charged = inp.amount as u128 - outs[0].amount as u128;
                    if charged != fee {
                        r.violate(
                            "C13|atr|fee-differs-from-rule",
                            format!("block {}: rebroadcast of {}-{}-{} charges {} but transaction size x parent fee level {} is {}", rec.id, inp.block_id, inp.tx_ordinal, inp.slip_index, charged, fee_level, fee),
                        );
                        return (0, 0);
                    }
                    if fee > 0 {
                        r.probe("rebroadcast_fee_checked_nonzero");
                    }
                }
                sum_out += outs[0].amount as u128;
                rebroadcast += 1;
            }
        }
    }
    // what was collected instead of rebroadcast could not pay the fee (judged where the treasury payout
    // multiplier is 1, i.e. the output is worth exactly its amount)
    if multiplier_is_one {
        for (x, m) in u.iter().zip(matched.iter()) {
            if !*m && !triples.iter().any(|(_, pl, _)| same_output(pl, x)) {
                if let Some(fee) = fee_of(x) {
                    if (x.amount as u128) > fee {
                        r.violate(
                            "C13|atr|collected-although-it-covers-the-fee",
                            format!("block {}: output {}-{}-{} worth {} was collected as fees although the rebroadcast fee is {}", rec.id, x.block_id, x.tx_ordinal, x.slip_index, x.amount, fee),
                        );
                        return (0, 0);
                    }
                }
            }
        }
    }
    // value conservation through the window edge: originals + treasury payout == reissued + fees
    let sum_u: u128 = u.iter().map(|x| x.amount as u128).sum();
    let dust: u128 = u.iter().zip(matched.iter()).filter(|(_, m)| !**m).map(|(x, _)| x.amount as u128).sum();
    let lhs = sum_u + total_payout_atr as u128;
    let rhs = sum_out + total_fees_atr as u128;
    if lhs != rhs {
        r.violate(
            "C13|value-not-conserved-at-edge",
            format!(
                "block {}: expiring unspent {} + treasury payout {} != rebroadcast {} + collected fees {} (not rebroadcast: {})",
                rec.id, sum_u, total_payout_atr, sum_out, total_fees_atr, dust
            ),
        );
    }
    (rebroadcast, u.len() as u64 - rebroadcast)
}

impl Scenario for C13 {
    fn id(&self) -> &'static str {
        "C13"
    }
    fn meta(&self) -> Meta {
        Meta {
            level: "exploration",
            rule: "run = real producer over genesis period 3..8 for 2-3 (quick) / 2-4 (thorough) windows; every block has 1-4 payments with fee class {0, small, large} (drives avg_fee_per_byte and so the rebroadcast fee) and optional dust outputs (1..2000 nolan); in 1 block of 4 one transaction creates an NFT group (Bound, payload, Bound) with a tiny / half / nearly-all deposit, which must be rebroadcast as a group (both bound slips unchanged around the payload) or collected; golden ticket every other block; in half of the runs one height early in the history holds a sibling block that reached the node first and was reorganised away (so the height has an orphan stored before its longest-chain block when it expires). For every accepted block B with id > gp+1: U = outputs of the chain's block at id-(gp+1) that are unspent in the reference ledger just before B. Oracle: B's ATR transactions are in bijection with a subset of U (same output identity, one ATR output to the same owner, 0 < amount <= input, and the amount charged equals the serialized size of the transaction that created the output x the average fee per byte recorded in B's parent; where the treasury multiplier is 1 an output collected instead is not worth more than that fee), nothing outside U and nothing twice, and sum(U) + total_payout_atr == sum(ATR outputs) + total_fees_atr in u128 (what is not rebroadcast is collected as fees). After B no member of U is spendable: an output older than the window offered as an input must be rejected by the pool and by block validation. distinct_nontrivial = distinct (genesis period, block id, |U|, rebroadcast count, dust count) of expiring blocks with |U| >= 1.",
            real: &["Block::generate_consensus_values (ATR section)", "Transaction::create_rebroadcast_transaction", "Block::validate (rebroadcast hash / slip count)", "Blockchain::add_block, prune/downgrade/delete_blocks", "Storage::load_block_from_disk"],
            stubs: &["SimIo", "SimConfig", "vendored ahash"],
            assumptions: &["NFT groups are created (Bound-Normal-Bound) and rebroadcast, not transferred, in this family", "staking off"],
        }
    }
    fn budget(&self, tier: Tier) -> Budget {
        match tier {
            Tier::Quick => Budget { max_runs: 20_000, wall_s: 40 },
            Tier::Thorough => Budget { max_runs: 1_000_000, wall_s: 420 },
        }
    }
    fn generate(&self, seed: u64, index: u64, tier: Tier) -> Value {
        serde_json::to_value(gen(derive_run_seed(seed, "C13", index), tier)).unwrap()
    }
    fn execute(&self, plan: &Value) -> RunResult {
        let plan: Plan = serde_json::from_value(plan.clone()).expect("plan");
        let mut r = RunResult::default();
        let params = Params {
            genesis_period: plan.gp,
            heartbeat: 1000,
            n_users: 3,
            slips_per_user: 4,
            base_amount: plan.base_amount,
        };
        let mut rng = Rng::new(mix(plan.seed, 13));
        let mut trace = Digest::new();
        let mut c = match crate::util::guarded(|| Chain::new(plan.seed, params.clone(), 8)) {
            Ok(Ok(c)) => c,
            _ => {
                r.discarded = true;
                return r;
            }
        };
        for (oi, op) in plan.ops.iter().enumerate() {
            let mut used = vec![];
            let mut txs = vec![];
            if op.nft > 0 {
                if let Some(t) = nft_creation(&mut c, &mut rng, op.fee, op.nft, &mut used) {
                    txs.push(t);
                    r.fault("nft_created", 1);
                }
            }
            for _ in 0..op.ntx {
                if let Some(t) = payment_with_dust(&mut c, &mut rng, op.fee, op.dust, &mut used) {
                    txs.push(t);
                }
            }
            if txs.is_empty() {
                let tag = c.tag();
                let ts = c.tip_rec().ts + tag;
                txs.push(make_tx(&c.keys[1].clone(), &[], &[(c.keys[1].pk, 0)], ts, &tag.to_le_bytes()));
            }
            let before = c.ledger.clone();
            let tip_hash = c.tip_rec().hash;
            let gt = op.gt || !c.node.bc.is_golden_ticket_count_valid(tip_hash, op.gt, false, false);
            let forked = plan.fork_at == Some(oi) && oi + 1 < plan.ops.len() && c.tip_rec().id + 1 <= plan.gp + 1;
            let ext = if forked {
                // the sibling carries its own payment (it may well spend the same outputs: it is orphaned)
                let mut used_s = vec![];
                let mut txs_s = vec![];
                if let Some(t) = payment_with_dust(&mut c, &mut rng, op.fee, op.dust, &mut used_s) {
                    txs_s.push(t);
                }
                let tag = c.tag();
                let ts = c.tip_rec().ts + tag;
                txs_s.push(make_tx(&c.keys[2].clone(), &[], &[(c.keys[2].pk, 0)], ts, &tag.to_le_bytes()));
                r.fault("sibling_block_stored_first", 1);
                crate::util::guarded(|| c.extend_with_sibling_first(txs_s, txs, gt, op.dt))
            } else {
                crate::util::guarded(|| c.extend(txs, gt, op.dt))
            };
            let idx = match ext {
                Ok(Ok(i)) => i,
                Ok(Err(e)) => {
                    r.probe("producer_refused_own_block");
                    trace.str(&e);
                    break;
                }
                Err(p) => {
                    r.violate(format!("C13|panic|{}", p.site()), format!("{} ({}:{})", p.msg, p.file, p.line));
                    break;
                }
            };
            let rec = c.recs[idx].clone();
            trace.bytes(&rec.hash);
            r.steps += 1;
            if rec.id > plan.gp + 1 {
                let exp_id = rec.id - (plan.gp + 1);
                let expiring = c.recs[(exp_id - 1) as usize].clone();
                let hdr = {
                    let b = c.node.bc.get_block(&rec.hash).unwrap();
                    (b.total_fees_atr, b.total_payout_atr)
                };
                let (fee_level, mult_one) = match c.node.bc.get_block(&rec.parent) {
                    Some(pb) => {
                        let staked = plan.gp as u128 * pb.avg_nolan_rebroadcast_per_block as u128;
                        (pb.avg_fee_per_byte, staked == 0 || (pb.treasury as u128) < staked)
                    }
                    None => (0, false),
                };
                let (rb, dust) = check_rebroadcast(&mut r, &rec, &expiring, &before, hdr, fee_level, mult_one);
                if !r.violations.is_empty() {
                    break;
                }
                r.probe_n("outputs_rebroadcast", rb);
                r.probe_n("dust_outputs_collected", dust);
                if rb + dust > 0 {
                    let mut d = Digest::new();
                    d.u64(plan.gp).u64(rec.id).u64(rb).u64(dust);
                    r.nontrivial.push(d.get());
                }
            }
        }
        // an output older than the window can no longer be spent
        if r.violations.is_empty() && !plan.expired_spend.is_empty() {
            let next_id = c.tip_rec().id + 1;
            let old: Vec<SlipRef> = c
                .ledger
                .utxo
                .values()
                .filter(|s| s.block_id + plan.gp + 1 <= next_id && s.amount > 0 && s.stype != SlipType::Bound)
                .cloned()
                .collect();
            if let Some(s) = old.first() {
                if let Some(owner) = c.keys.iter().find(|k| k.pk == s.pk).cloned() {
                    r.fault("expired_output_spend", 1);
                    let tag = c.tag();
                    let ts = c.tip_rec().ts + 3000 + tag;
                    let tx = make_tx(&owner, &[s.clone()], &[(owner.pk, s.amount)], ts, &tag.to_le_bytes());
                    if plan.expired_spend == "pool" {
                        if c.node.add_tx(tx) {
                            r.violate(
                                "C13|expired-output-spendable|pool",
                                format!("output {}-{}-{} (amount {}) is older than the window at block {} but a transaction spending it entered the pool", s.block_id, s.tx_ordinal, s.slip_index, s.amount, next_id),
                            );
                        }
                    } else {
                        let gt = !c.node.bc.is_golden_ticket_count_valid(c.tip_rec().hash, false, false, false) || next_id % 2 == 0;
                        match crate::util::guarded(|| c.extend(vec![tx], gt, 2500)) {
                            Ok(Ok(_)) => {
                                r.violate(
                                    "C13|expired-output-spendable|block",
                                    format!("output {}-{}-{} (amount {}) is older than the window but block {} spending it was accepted", s.block_id, s.tx_ordinal, s.slip_index, s.amount, next_id),
                                );
                            }
                            Ok(Err(_)) => {
                                r.probe("expired_spend_rejected");
                            }
                            Err(p) => {
                                r.violate(format!("C13|panic|{}", p.site()), format!("{} ({}:{})", p.msg, p.file, p.line));
                            }
                        }
                    }
                }
            } else {
                r.probe("no_expired_output_left");
            }
        }
        r.sim_time_ms = c.tip_rec().ts - TS0;
        r.state_hash = trace.get();
        r.trace_hash = trace.get();
        r
    }
    fn shrink(&self, plan: &Value) -> Vec<Value> {
        let p: Plan = match serde_json::from_value(plan.clone()) {
            Ok(p) => p,
            Err(_) => return vec![],
        };
        let mut out = vec![];
        if p.ops.len() > (p.gp as usize + 2) {
            let mut q = p.clone();
            q.ops.pop();
            out.push(q);
        }
        for i in 0..p.ops.len() {
            if p.ops[i].ntx > 1 {
                let mut q = p.clone();
                q.ops[i].ntx = 1;
                out.push(q);
            }
            if p.ops[i].fee > 0 {
                let mut q = p.clone();
                q.ops[i].fee = 0;
                out.push(q);
            }
        }
        out.into_iter().map(|p| serde_json::to_value(p).unwrap()).collect()
    }
}
