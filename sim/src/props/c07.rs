//! C07 — every block the node produces is one every node accepts.
//!
//! A real producer node: genesis from an issuance file, timer-driven bundling
//! (ConsensusThread::produce_blocks_by_timer), real MiningThread (seeded nonces), pool fed by a
//! scripted wallet through the routing/verification path. One or two independent observer nodes
//! learn of each block only through announce -> fetch -> verify -> add.

use saito_core::core::consensus::block::Block;
use saito_core::core::consensus::transaction::TransactionType;
use saito_core::core::defs::PrintForLog;
use saito_core::core::msg::handshake::HandshakeResponse;
use saito_core::core::msg::message::Message;
use saito_core::core::util::crypto::sign;
use serde::{Deserialize, Serialize};
use serde_json::Value;

use crate::framework::*;
use crate::l2::*;
use crate::rng::{mix, Rng};
use crate::simcfg::SimConfig;
use crate::simio::JournalOp;
use crate::util::{block_on, Digest};
use crate::world::*;

pub struct C07;

#[derive(Clone, Debug, Serialize, Deserialize)]
pub struct Op {
    pub k: String,
    pub a: u64,
    pub b: u64,
}

#[derive(Clone, Debug, Serialize, Deserialize)]
pub struct Plan {
    pub seed: u64,
    /// "network" (producer + observers) or "chain" (producer builds on its own tip through Block::create
    /// with harness-made transactions and validates the result itself; long histories)
    #[serde(default)]
    pub family: String,
    pub gp: u64,
    pub heartbeat: u64,
    pub observers: usize,
    pub base_amount: u64,
    pub ops: Vec<Op>,
    /// network family: social staking on (the producer must stake this amount in every block and can
    /// re-stake a slip `stake_period` blocks later); 0 = off
    #[serde(default)]
    pub stake: u64,
    #[serde(default)]
    pub stake_period: u64,
    /// chain family: the producer keeps the transactions of this many blocks below its tip in memory
    /// (`prune_after_blocks`); older bodies are on its disk only
    #[serde(default = "default_prune")]
    pub prune_after: u64,
}

fn default_prune() -> u64 {
    8
}

fn gen(seed: u64, tier: Tier) -> Plan {
    let mut rng = Rng::new(seed);
    let n = rng.range(20, if tier == Tier::Quick { 140 } else { 400 });
    let kinds = ["tx", "tx", "tx-routed", "tx-conflict", "tick", "tick-long", "tick-long", "tick-long", "skew", "observer-restart", "tx-dust", "tx", "rival-block", "rival-block"];
    let ops = (0..n).map(|_| Op { k: rng.pick(&kinds).to_string(), a: rng.below(64), b: rng.below(64) }).collect();
    Plan {
        seed,
        family: if rng.chance(1, 3) { "chain".into() } else { "network".into() },
        gp: *rng.pick(&[3u64, 4, 5, 8, 20, 100]),
        heartbeat: *rng.pick(&[200u64, 1000, 5000]),
        observers: rng.range(1, 2) as usize,
        base_amount: *rng.pick(&[100_000u64, 50_000_000, 9_000_000_000_000]),
        ops,
        stake: if rng.chance(1, 4) { 25_000 + rng.below(50_000) } else { 0 },
        stake_period: rng.range(2, 5),
        prune_after: *rng.pick(&[1u64, 2, 3, 8, 8, 8]),
    }
}

impl Scenario for C07 {
    fn id(&self) -> &'static str {
        "C07"
    }
    fn meta(&self) -> Meta {
        Meta {
            level: "exploration",
            rule: "run = real producer node (genesis produced from an issuance file on its simulated disk, then timer-driven bundling with the real mempool, staking transaction, golden tickets from the real MiningThread) + 1-2 observer nodes connected as static peers (announce -> fetch from the producer's disk -> verify -> add) + a scripted wallet that submits transactions through the producer's routing/verification path; genesis period in {3,4,5,8,20,100}, heartbeat in {0.2,1,5} s, issuance scale in {1e5,5e7,9e12}; 20..140/400 operations from {payment with random fee, payment with a routing hop to the producer, conflicting pair, dust payment, timer round of 1-3 s, long round (> 2 heartbeats), producer clock skew, observer crash+restart, a rival producer's valid block built on the producer's tip and delivered to it as a fetched peer block (so that the chain advances without draining the producer's pool)}; the network runs to quiescence after each (block fetches complete in request order). A third of the runs is the chain family instead: a producer that builds on its own tip through Block::create with harness-made transactions and validates the result itself, over long histories, keeping the bodies of only 1, 2, 3 or 8 blocks below its tip in memory (prune_after_blocks), so that whatever its payout and rebroadcast computations read from older blocks has to come back from its disk. Oracle: no processor panics; every block returned by bundle_block becomes the producer's tip (blocks_created == producer-created blocks on its chain); at every quiescent point each connected observer's tip equals the producer's tip. distinct_nontrivial = distinct produced blocks that carried >= 1 fee-paying transaction and were offered to >= 1 observer.",
            real: &["ConsensusThread (genesis, bundle_block, add_blocks_from_mempool)", "Mempool::bundle_block/can_bundle_block", "Block::create/generate_consensus_values/validate", "MiningThread", "RoutingThread/VerificationThread on all nodes", "handshake, BlockchainSyncState, Storage"],
            stubs: &["SimNet", "fetch server over the producer's SimDisk", "SimClock with skew", "scripted wallet peer"],
            assumptions: &["event-granularity scheduling", "staking off"],
        }
    }
    fn budget(&self, tier: Tier) -> Budget {
        match tier {
            Tier::Quick => Budget { max_runs: 4_000, wall_s: 50 },
            Tier::Thorough => Budget { max_runs: 200_000, wall_s: 480 },
        }
    }
    fn generate(&self, seed: u64, index: u64, tier: Tier) -> Value {
        serde_json::to_value(gen(derive_run_seed(seed, "C07", index), tier)).unwrap()
    }
    fn execute(&self, plan: &Value) -> RunResult {
        let plan: Plan = serde_json::from_value(plan.clone()).expect("plan");
        let mut r = RunResult::default();
        if plan.family == "chain" {
            return chain_family(&plan);
        }
        let mut rng = Rng::new(mix(plan.seed, 7));
        let pk = derive_key(plan.seed, 0);
        let users: Vec<Key> = (1..=3).map(|i| derive_key(plan.seed, i)).collect();
        let mut cfg = SimConfig::new(plan.gp, plan.heartbeat);
        cfg.consensus.prune_after_blocks = 8;
        if plan.stake > 0 {
            cfg.consensus.default_social_stake = plan.stake;
            cfg.consensus.default_social_stake_period = plan.stake_period.max(2);
            r.fault("social_staking_enabled", 1);
        }
        let mut sim = Sim::new(mix(plan.seed, 71), TS0);
        let mut opts = NodeOpts::default();
        opts.produce_blocks_by_timer = true;
        opts.mining_enabled = true;
        opts.mining_iterations = 8;
        let p = sim.add_node(&pk, &cfg, &opts);
        // issuance file: amounts >= 25000 go to the named key
        {
            let mut txt = String::new();
            for (ui, u) in users.iter().enumerate() {
                for s in 0..4u64 {
                    txt.push_str(&format!("{}\t{}\tNormal\n", plan.base_amount * (s + 1) + ui as u64 + 30_000, u.pk.to_base58()));
                }
            }
            if plan.stake > 0 {
                // the producer needs funds of its own to stake: a handful of slips, each a few stakes large
                for s in 0..8u64 {
                    txt.push_str(&format!("{}\t{}\tNormal\n", plan.stake * 3 + 30_000 + s, pk.pk.to_base58()));
                }
            }
            let mut d = sim.nodes[p].disk.lock().unwrap();
            d.apply(&JournalOp::Write { path: "./data/issuance/issuance".to_string(), data: txt.into_bytes() });
        }
        sim.init_node(p, true);
        // observers
        let mut ocfg = cfg.clone();
        ocfg.peers = vec![static_peer("node0")];
        let mut oopts = NodeOpts::default();
        oopts.mining_enabled = false;
        let mut obs = vec![];
        for i in 0..plan.observers {
            let k = derive_key(plan.seed, 20 + i as u64);
            let o = sim.add_node(&k, &ocfg, &oopts);
            sim.init_node(o, false);
            obs.push(o);
        }
        // wallet peer (ext 0) authenticates with user 1's key
        let version = saito_core::core::process::version::read_pkg_version();
        let (wc, _widx) = sim.connect_external(0, p);
        sim.settle_without_fetches(3000);
        for (_c, m) in sim.take_ext_inbox(0) {
            if let Ok(Message::HandshakeChallenge(ch)) = Message::deserialize(m) {
                let resp = HandshakeResponse {
                    public_key: users[0].pk,
                    signature: sign(&ch.challenge, &users[0].sk),
                    is_lite: true,
                    block_fetch_url: String::new(),
                    challenge: [1; 32],
                    services: vec![],
                    wallet_version: version,
                    core_version: version,
                };
                sim.ext_send(wc, Message::HandshakeResponse(resp).serialize());
            }
        }
        // a rival producer: an independent replica of the producer's chain on which the harness
        // builds (real Block::create) a competing-but-valid next block now and then; it reaches the
        // producer as a fetched peer block, so that a block which does NOT drain the producer's pool is
        // adopted while transactions are pending
        let rival = derive_key(plan.seed, 30);
        let rival_keys: Vec<Key> = vec![rival.clone()];
        let mut rep = Node::new(&cfg, &rival);
        let mut rival_blocks: Vec<[u8; 32]> = vec![];
        let mut rival_adopted: Vec<[u8; 32]> = vec![];
        let mut trace = Digest::new();
        let mut ledger = RefLedger::default();
        let mut seen_blocks: Vec<[u8; 32]> = vec![];
        let mut pending_spent: Vec<UtxoKey> = vec![];
        let mut offered_fee_blocks: Vec<u64> = vec![];
        let mut tagc = 0u64;

        // run everything (incl. fetches) to quiescence
        let settle = |sim: &mut Sim| -> bool {
            let mut k = 0;
            loop {
                sim.resolve_connects(|n, _| if n != 0 { Some(0) } else { None });
                // block fetches complete in the order they were requested (parents first): a child that
                // arrives before its parent is the orphan-delivery defect owned by C03/C05/C15, not this
                // property's subject
                let acts: Vec<Action> = sim.enabled().into_iter().filter(|a| !matches!(a, Action::FetchDone(i) | Action::FetchFail(i) if *i > 0)).collect();
                if acts.is_empty() {
                    return true;
                }
                let a = acts[sim.rng.usize_below(acts.len())].clone();
                sim.apply(a);
                k += 1;
                if k > 50_000 {
                    return false;
                }
            }
        };
        let tick_all = |sim: &mut Sim, ms: u64| {
            sim.advance(ms);
            for n in 0..sim.nodes.len() {
                sim.tick(n, P_ROUTING);
                sim.tick(n, P_MINING);
                sim.tick(n, P_CONSENSUS);
            }
        };
        // genesis + connections
        tick_all(&mut sim, 1100);
        settle(&mut sim);
        tick_all(&mut sim, 2100);
        settle(&mut sim);
        let mut restarted_at: Option<usize> = None;
        for (oi, op) in plan.ops.iter().enumerate() {
            trace.str(&op.k).u64(op.a).u64(op.b);
            // refresh the wallet's view from the producer's chain
            {
                let bc = block_on(sim.nodes[p].blockchain_lock.read());
                let tip = bc.get_latest_block_hash();
                // walk back to the first unseen block
                let mut chain = vec![];
                let mut cur = tip;
                while cur != [0; 32] && !seen_blocks.contains(&cur) {
                    match bc.get_block(&cur) {
                        Some(b) => {
                            chain.push(b.hash);
                            cur = b.previous_block_hash;
                        }
                        None => break,
                    }
                }
                chain.reverse();
                for h in chain {
                    if let Some(b) = bc.get_block(&h) {
                        if b.transactions.is_empty() && b.id > 1 {
                            continue; // pruned already: cannot be learned any more (not expected at depth 8)
                        }
                        let rec = rec_from_block(b, true, "produced");
                        ledger.apply(&rec);
                        seen_blocks.push(h);
                        let _ = rep.add_block_bytes(&b.serialize_for_net(saito_core::core::consensus::block::BlockType::Full));
                        if b.id > 1 && rec.txs.iter().any(|t| t.ttype == TransactionType::Normal && t.inputs.iter().map(|s| s.amount as u128).sum::<u128>() > t.outputs.iter().map(|s| s.amount as u128).sum::<u128>()) {
                            offered_fee_blocks.push(crate::rng::fnv_bytes(&h));
                        }
                    }
                }
            }
            let tip_id = sim.nodes[p].tip().0;
            let spendable = |ledger: &RefLedger, k: &Key, pending: &Vec<UtxoKey>| -> Vec<SlipRef> {
                ledger
                    .unspent_of(&k.pk)
                    .into_iter()
                    .filter(|s| s.block_id + plan.gp > tip_id + 1 && !pending.contains(&s.key()))
                    .collect()
            };
            match op.k.as_str() {
                "tx" | "tx-routed" | "tx-conflict" | "tx-dust" => {
                    let u = &users[(op.a % 3) as usize];
                    let mine = spendable(&ledger, u, &pending_spent);
                    if !mine.is_empty() {
                        let inp = mine[(op.b as usize) % mine.len()].clone();
                        let fee = match op.k.as_str() {
                            "tx-dust" => 0,
                            _ => (op.b * 997) % (inp.amount / 3 + 1),
                        };
                        let to = &users[((op.a + 1) % 3) as usize];
                        tagc += 1;
                        let rest = inp.amount - fee;
                        let outs = if op.k == "tx-dust" && rest > 10 {
                            vec![(to.pk, rest - 7), (u.pk, 7)]
                        } else {
                            vec![(to.pk, rest / 2), (u.pk, rest - rest / 2)]
                        };
                        let mut tx = make_tx(u, &[inp.clone()], &outs, sim.now() + tagc, &tagc.to_le_bytes());
                        if op.k == "tx-routed" {
                            tx.add_hop(&u.sk, &u.pk, &pk.pk);
                        }
                        sim.ext_send(wc, Message::Transaction(tx).serialize());
                        if op.k == "tx-conflict" {
                            tagc += 1;
                            let tx2 = make_tx(u, &[inp.clone()], &[(u.pk, inp.amount)], sim.now() + tagc, &tagc.to_le_bytes());
                            sim.ext_send(wc, Message::Transaction(tx2).serialize());
                            r.fault("conflicting_transactions", 1);
                        }
                        pending_spent.push(inp.key());
                    }
                }
                "rival-block" => {
                    let (tip_id2, tip_hash, tip_ts) = {
                        let bc = block_on(sim.nodes[p].blockchain_lock.read());
                        let h = bc.get_latest_block_hash();
                        (bc.get_latest_block_id(), h, bc.get_block(&h).map(|b| b.timestamp).unwrap_or(0))
                    };
                    let now = sim.now();
                    // old enough that no routing work is required of the rival; replica in step with the producer
                    if tip_id2 >= 1 && rep.tip().1 == tip_hash && now >= tip_ts + 2 * plan.heartbeat + 1 {
                        tagc += 1;
                        let filler = make_tx(&users[2], &[], &[(users[2].pk, 0)], now + tagc, &tagc.to_le_bytes());
                        let want_gt = !rep.bc.is_golden_ticket_count_valid(tip_hash, false, false, false);
                        let spec = BlockSpec { parent: tip_hash, ts: now, txs: vec![filler], gt: want_gt, creator: 0 };
                        if let Ok(Ok(b)) = crate::util::guarded(|| build_block(&rep, &rival_keys, spec)) {
                            rival_blocks.push(b.hash);
                            sim.nodes[p].net_in.push_back(saito_core::core::io::network_event::NetworkEvent::BlockFetched {
                                block_hash: b.hash,
                                block_id: b.id,
                                peer_index: _widx,
                                buffer: b.serialize_for_net(saito_core::core::consensus::block::BlockType::Full),
                            });
                            r.fault("rival_block_delivered", 1);
                        }
                    }
                }
                "tick" => tick_all(&mut sim, 1000 + (op.a % 3) * 700),
                "tick-long" => tick_all(&mut sim, (2 * plan.heartbeat).max(5000) + 1200),
                "skew" => {
                    let off = (op.a as i64 - 32) * 400;
                    sim.nodes[p].clock.set_offset(off);
                    r.fault("producer_clock_skew", 1);
                }
                "observer-restart" => {
                    if !obs.is_empty() && restarted_at.map_or(true, |x| oi > x + 5) {
                        let o = obs[(op.a as usize) % obs.len()];
                        sim.restart_node(o, &ocfg, &oopts, None);
                        sim.init_node(o, false);
                        restarted_at = Some(oi);
                        r.fault("observer_crash_restart", 1);
                    }
                }
                _ => {}
            }
            let quiet = settle(&mut sim);
            let _ = sim.take_ext_inbox(0);
            if let Some((n, what, pan)) = sim.panics.first() {
                let who = if *n == p { "producer" } else { "observer" };
                r.violate(
                    format!("C07|panic|{}|{}|{}", who, what, pan.site()),
                    format!("op {} ({}): {} {} panicked: {} ({}:{})", oi, op.k, who, what, pan.msg.chars().take(160).collect::<String>(), pan.file, pan.line),
                );
                break;
            }
            if !quiet {
                r.violate("C07|stall", format!("op {} ({}): no quiescence", oi, op.k));
                break;
            }
            // producer adopted everything it bundled
            let created = sim.nodes[p].consensus.stats.blocks_created.total;
            let (own_on_chain, ptip) = {
                let bc = block_on(sim.nodes[p].blockchain_lock.read());
                let mut cnt = 0u64;
                let mut cur = bc.get_latest_block_hash();
                while let Some(b) = bc.get_block(&cur) {
                    if b.creator == pk.pk && b.id > 1 {
                        cnt += 1;
                    }
                    cur = b.previous_block_hash;
                    if cur == [0; 32] {
                        break;
                    }
                }
                // rival blocks that made it onto the chain (they are built on the producer's tip one at a
                // time, so they are never reorganised away again)
                for h in &rival_blocks {
                    if !rival_adopted.contains(h) && bc.get_block(h).map_or(false, |b| b.in_longest_chain) {
                        rival_adopted.push(*h);
                    }
                }
                // blocks purged from memory still count: ids are consecutive from genesis and every block
                // on the chain is the producer's own or an adopted rival block
                let by_height = bc.get_latest_block_id().saturating_sub(1).saturating_sub(rival_adopted.len() as u64);
                (cnt.max(by_height), (bc.get_latest_block_id(), bc.get_latest_block_hash()))
            };
            if std::env::var("VERIF_DEBUG").is_ok() {
                eprintln!("op {} {} created {} own_on_chain {} tip {} rival {}/{} now {}", oi, op.k, created, own_on_chain, ptip.0, rival_adopted.len(), rival_blocks.len(), sim.now());
            }
            if created > own_on_chain {
                let mult = {
                    let bc = block_on(sim.nodes[p].blockchain_lock.read());
                    atr_multiplier(&bc, plan.gp)
                };
                r.violate(
                    if mult > 1 { "C07|producer-refused-own-block|network|atr-treasury-multiplier-above-1" } else { "C07|producer-refused-own-block|network|other" },
                    format!("op {} ({}): the producer bundled {} blocks but only {} are on its chain (tip id {})", oi, op.k, created, own_on_chain, ptip.0),
                );
                break;
            }
            // observers follow
            for o in &obs {
                let connected = sim.conns.iter().any(|c| c.open && (matches!(&c.a, Endpoint::Node(n, _) if n == o) || matches!(&c.b, Endpoint::Node(n, _) if n == o)));
                if !connected {
                    continue;
                }
                // only judge observers that had a full timer round since (re)connecting
                if restarted_at.map_or(false, |x| oi <= x + 4) {
                    continue;
                }
                let ot = sim.nodes[*o].tip();
                if ot.1 != ptip.1 && ptip.0 > 0 {
                    // give one more round before judging (announcement may need the 2 s fetch timer)
                    tick_all(&mut sim, 2100);
                    settle(&mut sim);
                    let ot2 = sim.nodes[*o].tip();
                    let pt2 = sim.nodes[p].tip();
                    if ot2.1 != pt2.1 && sim.panics.is_empty() {
                        r.violate(
                            "C07|observer-does-not-follow",
                            format!("op {} ({}): producer tip id {} ({}), observer node{} tip id {} ({})", oi, op.k, pt2.0, crate::util::hex8(&pt2.1), o, ot2.0, crate::util::hex8(&ot2.1)),
                        );
                    }
                }
            }
            if !r.violations.is_empty() {
                break;
            }
        }
        r.steps = sim.steps;
        r.sim_time_ms = sim.now() - TS0;
        for (k, v) in sim.fired.iter() {
            r.fault(k, *v);
        }
        r.probe_n("blocks_produced", sim.nodes[p].consensus.stats.blocks_created.total);
        r.probe_n("golden_tickets_mined", sim.nodes[p].mining.mined_golden_tickets);
        r.probe_n("rival_blocks_adopted", rival_adopted.len() as u64);
        for h in offered_fee_blocks {
            r.nontrivial.push(h);
        }
        r.schedule_hash = sim.schedule_digest.get();
        trace.u64(sim.schedule_digest.get()).bytes(&sim.nodes[p].tip().1);
        r.state_hash = trace.get();
        r.trace_hash = trace.get();
        let _ = Block::new;
        r
    }
    fn shrink(&self, plan: &Value) -> Vec<Value> {
        let p: Plan = match serde_json::from_value(plan.clone()) {
            Ok(p) => p,
            Err(_) => return vec![],
        };
        let mut out = vec![];
        if p.ops.len() > 2 {
            let mut q = p.clone();
            q.ops.pop();
            out.push(q);
        }
        for i in 0..p.ops.len().min(60) {
            if p.ops.len() > 1 {
                let mut q = p.clone();
                q.ops.remove(i);
                out.push(q);
            }
        }
        if p.observers > 1 {
            let mut q = p.clone();
            q.observers = 1;
            out.push(q);
        }
        out.into_iter().map(|p| serde_json::to_value(p).unwrap()).collect()
    }
}

/// producer == first validator: every block built by the real Block::create on the node's own tip
/// from valid transactions must be accepted by that node and by an observer holding the same chain
fn chain_family(plan: &Plan) -> RunResult {
    let mut r = RunResult::default();
    let gp = plan.gp.min(10);
    let params = Params { genesis_period: gp, heartbeat: 1000, n_users: 3, slips_per_user: 4, base_amount: plan.base_amount };
    let mut rng = Rng::new(mix(plan.seed, 70));
    let mut c = match crate::util::guarded(|| Chain::new(plan.seed, params.clone(), plan.prune_after.max(1))) {
        Ok(Ok(c)) => c,
        _ => {
            r.discarded = true;
            return r;
        }
    };
    let mut observer = Node::new(&c.cfg, &c.keys[2].clone());
    let _ = observer.add_block_bytes(&c.recs[0].bytes.clone());
    let mut trace = Digest::new();
    let n = plan.ops.len().min(120);
    for i in 0..n {
        let op = &plan.ops[i];
        let mut used = vec![];
        let mut txs = vec![];
        for k in 0..(1 + op.a % 3) {
            let user = 1 + rng.usize_below(3);
            let fee = match op.k.as_str() {
                "tx-dust" => 0,
                "tx-routed" => 50_000 + op.b * 1000,
                _ => (op.b * 997 + k * 13) % 9000,
            };
            if let Some((t, inp)) = c.payment(user, 1 + rng.usize_below(3), rng.usize_below(32), fee, (op.a % 3) as usize, &used) {
                used.push(inp.key());
                txs.push(t);
            }
        }
        if txs.is_empty() {
            let tag = c.tag();
            let ts = c.tip_rec().ts + tag;
            txs.push(make_tx(&c.keys[1].clone(), &[], &[(c.keys[1].pk, 0)], ts, &tag.to_le_bytes()));
        }
        let tip_hash = c.tip_rec().hash;
        // difficulty rises with consecutive tickets; mining cost is 2^difficulty
        let difficulty = c.node.bc.get_block(&tip_hash).map(|b| b.difficulty).unwrap_or(0);
        let want_gt = op.b % 2 == 0 && difficulty < 8;
        let gt = want_gt || !c.node.bc.is_golden_ticket_count_valid(tip_hash, want_gt, false, false);
        match crate::util::guarded(|| c.extend(txs, gt, 2100 + (op.a % 5) * 300)) {
            Ok(Ok(idx)) => {
                let rec = c.recs[idx].clone();
                trace.bytes(&rec.hash);
                r.steps += 1;
                if rec.txs.iter().any(|t| t.ttype == TransactionType::Normal && t.inputs.iter().map(|s| s.amount as u128).sum::<u128>() > t.outputs.iter().map(|s| s.amount as u128).sum::<u128>()) {
                    r.nontrivial.push(crate::rng::fnv_bytes(&rec.hash));
                }
                match crate::util::guarded(|| observer.add_block_bytes(&rec.bytes)) {
                    Ok(Some(x)) if outcome_of(&x) == (AddOutcome::Added { longest: true }) => {}
                    Ok(other) => {
                        r.violate(
                            "C07|observer-refused-producer-block|chain",
                            format!("block id {} accepted by its producer but not by an observer holding the same chain: {:?}", rec.id, other.as_ref().map(outcome_of)),
                        );
                        break;
                    }
                    Err(p) => {
                        r.violate(format!("C07|panic|observer|chain|{}", p.site()), format!("{} ({}:{})", p.msg, p.file, p.line));
                        break;
                    }
                }
            }
            Ok(Err(e)) => {
                let class = e.split("REFUSED[").nth(1).and_then(|x| x.split(']').next()).unwrap_or("build-failed").to_string();
                if e.contains("REFUSED[") {
                    r.violate(format!("C07|producer-refused-own-block|chain|{}", class), e);
                } else {
                    r.probe("chain_build_failed");
                }
                break;
            }
            Err(p) => {
                r.violate(format!("C07|panic|producer|chain|{}", p.site()), format!("{} ({}:{})", p.msg, p.file, p.line));
                break;
            }
        }
    }
    r.probe_n("chain_family_blocks", r.steps);
    r.sim_time_ms = c.tip_rec().ts - TS0;
    r.state_hash = trace.get();
    r.trace_hash = trace.get();
    r
}
