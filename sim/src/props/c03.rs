//! C03 — ledger state equals a replay of the longest chain.
//!
//! Block trees (all recursive trees with <= N non-genesis blocks x all delivery orders first, then
//! random trees) delivered to one real `Blockchain` through `add_block`; after every delivery the
//! reported tip is walked back to genesis in the reference tree and (1) the spendable set,
//! (2) the by-height index, (3) every stored block's on-chain flag, (4) tip id/hash are compared
//! with the replay of exactly that chain.

use serde::{Deserialize, Serialize};
use serde_json::Value;

use crate::framework::*;
use crate::rng::{mix, Rng};
use crate::util::Digest;
use crate::world::*;

pub struct C03;

#[derive(Clone, Debug, Serialize, Deserialize)]
pub struct TreeNode {
    pub uid: u64,
    /// uid of parent (0 = genesis)
    pub parent: u64,
    pub ntx: usize,
    pub gt: bool,
    pub dt: u64,
    /// "" honest; otherwise an edit that makes it invalid at validation time
    pub invalid: String,
}

#[derive(Clone, Debug, Serialize, Deserialize)]
pub struct Plan {
    pub seed: u64,
    pub mode: String,
    pub nodes: Vec<TreeNode>,
    /// delivery order: uids (repeats = duplicate deliveries)
    pub order: Vec<u64>,
    /// blocks deeper than this below the tip are kept without their transactions (Pruned) and have to
    /// be re-read from disk when a reorganisation unwinds them; 0 = the default (8)
    #[serde(default)]
    pub prune_after: u64,
    /// long-chain family (mode "long-chain"): (genesis period, chain length, depth of the final reorganisation;
    /// 0 = none). The chain outgrows the block ring (2 x genesis period slots) one to three times.
    #[serde(default)]
    pub long: Option<(u64, u64, u64)>,
    /// long-chain family: when the producer chain reaches this height (> 0) the node is first offered an
    /// invalid block of that height + 1 (re-signed, wrong burn fee), which it has to refuse without a trace:
    /// the chain then grows more than a full ring past it
    #[serde(default)]
    pub reject_at: u64,
}

fn factorial(n: u64) -> u64 {
    (1..=n).product()
}

/// k-th permutation of 0..n
fn nth_permutation(n: usize, mut k: u64) -> Vec<usize> {
    let mut items: Vec<usize> = (0..n).collect();
    let mut out = vec![];
    for i in (1..=n as u64).rev() {
        let f = factorial(i - 1);
        let idx = (k / f) as usize;
        k %= f;
        out.push(items.remove(idx));
    }
    out
}

pub fn exhaustive_size(n: u64) -> u64 {
    factorial(n) * factorial(n)
}

fn gen_exhaustive(seed: u64, n: usize, k: u64) -> Plan {
    // k = tree_code * n! + perm_code ; tree code = mixed radix parents (node i has i choices)
    let nf = factorial(n as u64);
    let mut tcode = k / nf;
    let pcode = k % nf;
    let mut nodes = vec![];
    let mut depth = vec![1u64]; // genesis depth (id) = 1
    for i in 1..=n {
        let choices = i as u64; // parents 0..i-1
        let p = tcode % choices;
        tcode /= choices;
        let d = depth[p as usize] + 1;
        depth.push(d);
        nodes.push(TreeNode {
            uid: i as u64,
            parent: p,
            ntx: 1 + (i % 2),
            gt: d % 2 == 0,
            dt: 2000 + 100 * (i as u64 % 3),
            invalid: String::new(),
        });
    }
    let order = nth_permutation(n, pcode).into_iter().map(|x| x as u64 + 1).collect();
    Plan {
        seed,
        mode: format!("exhaustive-{}", n),
        nodes,
        order,
        prune_after: 0,
        long: None,
        reject_at: 0,
    }
}

fn gen_random(seed: u64, tier: Tier) -> Plan {
    let mut rng = Rng::new(seed);
    if rng.chance(1, 12) {
        let gp = rng.range(3, 6);
        let ring = 2 * gp;
        let len = rng.range(ring + 1, if tier == Tier::Quick { 2 * ring + 3 } else { 3 * ring + 3 });
        let depth = if rng.chance(1, 2) { rng.range(1, (gp - 2).max(1)) } else { 0 };
        let reject_at = if rng.chance(1, 2) { rng.range(2, gp + 1) } else { 0 };
        return Plan { seed, mode: "long-chain".into(), nodes: vec![], order: vec![], prune_after: *rng.pick(&[1u64, 2, 8]), long: Some((gp, len, depth)), reject_at };
    }
    let max_n = if tier == Tier::Quick { 15 } else { 30 };
    let n = rng.range(3, max_n) as usize;
    let mut nodes: Vec<TreeNode> = vec![];
    let mut depth = vec![1u64];
    let mut invalid_uids = vec![];
    let style = rng.below(5);
    // style 4: a prefix, branch A, then a longer branch B off the same fork point, delivered branch after
    // branch: one reorganisation as deep as A (with a small prune depth its blocks are already Pruned)
    let prefix_len = 1 + rng.below(2);
    let a_len = ((n as u64).saturating_sub(prefix_len + 1)) / 2;
    for i in 1..=n {
        // parent choice: chain-like, bushy, or two competing forks grown alternately
        let p = match style {
            0 => rng.below(i as u64),
            1 => {
                if rng.chance(3, 4) {
                    (i as u64) - 1
                } else {
                    rng.below(i as u64)
                }
            }
            4 => {
                let i = i as u64;
                if i <= prefix_len + a_len {
                    i - 1 // prefix, then branch A, as a chain
                } else if i == prefix_len + a_len + 1 {
                    prefix_len // branch B starts at the fork point
                } else {
                    i - 1
                }
            }
            2 => {
                // two forks off a common prefix, alternately extended
                if i <= 2 {
                    (i as u64) - 1
                } else if i == 3 {
                    1
                } else {
                    (i as u64) - 2
                }
            }
            _ => {
                if rng.chance(1, 2) {
                    (i as u64) - 1
                } else {
                    (i as u64).saturating_sub(1 + rng.below(3.min(i as u64)))
                }
            }
        };
        // never build on an invalid block here (C04 owns failing multi-block reorganisations)
        let p = if invalid_uids.contains(&p) { 0 } else { p };
        let d = depth[p as usize] + 1;
        depth.push(d);
        let invalid = if i > 2 && style != 4 && rng.chance(1, 12) {
            invalid_uids.push(i as u64);
            "burnfee".to_string()
        } else {
            String::new()
        };
        nodes.push(TreeNode {
            uid: i as u64,
            parent: p,
            ntx: rng.range(1, 4) as usize,
            gt: if rng.chance(1, 8) { rng.chance(1, 2) } else { d % 2 == 0 },
            dt: 2000 + rng.below(3000),
            invalid,
        });
    }
    // delivery order: a random linear extension, then a few perturbations
    let mut order: Vec<u64> = vec![];
    let mut remaining: Vec<u64> = (1..=n as u64).collect();
    let mut delivered: Vec<u64> = vec![0];
    while !remaining.is_empty() {
        let ready: Vec<usize> = remaining
            .iter()
            .enumerate()
            .filter(|(_, u)| delivered.contains(&nodes[(**u - 1) as usize].parent))
            .map(|(i, _)| i)
            .collect();
        let pick = if style == 2 || style == 4 || rng.chance(1, 2) {
            ready[0]
        } else {
            *rng.pick(&ready)
        };
        let u = remaining.remove(pick);
        delivered.push(u);
        order.push(u);
        if rng.chance(1, 10) {
            // duplicate delivery of something already delivered
            let d = *rng.pick(&delivered);
            if d != 0 {
                order.push(d);
            }
        }
    }
    // orphan-first deliveries trip a known defect; generate them rarely
    if style != 4 && rng.chance(1, 25) && order.len() >= 3 {
        let i = rng.usize_below(order.len() - 1);
        order.swap(i, i + 1);
    }
    Plan {
        seed,
        mode: "random".into(),
        nodes,
        order,
        prune_after: *rng.pick(&[0u64, 0, 1, 2, 3]),
        long: None,
        reject_at: 0,
    }
}

struct Snapshot {
    digest: u64,
}

fn check_node(
    w: &World,
    n: &Node,
    r: &mut RunResult,
    max_height: u64,
    step: usize,
) -> Option<Snapshot> {
    let (tip_id, tip_hash) = n.tip();
    let idx = match w.by_hash.get(&tip_hash) {
        Some(i) => *i,
        None => {
            r.violate(
                "C03|tip|unknown-hash",
                format!("step {}: reported tip {} hash {} is not a delivered block", step, tip_id, hex::encode(tip_hash)),
            );
            return None;
        }
    };
    let path = w.path_to(idx);
    if w.recs[path[0]].parent != [0; 32] || path[0] != 0 {
        r.violate("C03|tip|not-rooted", format!("step {}: tip chain does not reach genesis", step));
        return None;
    }
    // (4) tip id
    if tip_id != w.recs[idx].id {
        r.violate(
            "C03|tip|id-mismatch",
            format!("step {}: reported tip id {} but block id is {}", step, tip_id, w.recs[idx].id),
        );
        return None;
    }
    // (1) ledger
    let mut ledger = RefLedger::default();
    for i in &path {
        ledger.apply(&w.recs[*i]);
    }
    let want = ledger.keys();
    let got = n.utxo_keys();
    if want != got {
        let missing = want.iter().filter(|k| !got.contains(k)).count();
        let extra = got.iter().filter(|k| !want.contains(k)).count();
        let class = if missing > 0 && extra > 0 {
            "both"
        } else if missing > 0 {
            "missing"
        } else {
            "extra"
        };
        r.violate(
            format!("C03|ledger|{}", class),
            format!(
                "step {}: spendable set differs from replay of reported chain (tip {}): {} missing, {} extra",
                step, tip_id, missing, extra
            ),
        );
        return None;
    }
    // (2) index
    for (h, i) in path.iter().enumerate() {
        let id = h as u64 + 1;
        let got = n.bc.blockring.get_longest_chain_block_hash_at_block_id(id);
        if got != Some(w.recs[*i].hash) {
            r.violate(
                "C03|index|wrong-at-height",
                format!("step {}: index at id {} is {:?}, chain has {}", step, id, got.map(hex::encode), hex::encode(w.recs[*i].hash)),
            );
            return None;
        }
    }
    for id in tip_id + 1..=max_height + 2 {
        if let Some(h) = n.bc.blockring.get_longest_chain_block_hash_at_block_id(id) {
            r.violate(
                "C03|index|entry-above-tip",
                format!("step {}: index at id {} (> tip {}) is {}", step, id, tip_id, hex::encode(h)),
            );
            return None;
        }
    }
    // (3) flags
    let mut flags: Vec<(SaitoHashT, bool)> = n.bc.blocks.iter().map(|(h, b)| (*h, b.in_longest_chain)).collect();
    flags.sort();
    for (h, f) in &flags {
        let on = path.iter().any(|i| w.recs[*i].hash == *h);
        if *f != on {
            r.violate(
                if *f { "C03|flag|set-off-chain" } else { "C03|flag|unset-on-chain" },
                format!("step {}: block {} in_longest_chain={} but on reported chain={}", step, hex::encode(h), f, on),
            );
            return None;
        }
    }
    let mut d = Digest::new();
    d.bytes(&tip_hash).u64(got.len() as u64).u64(flags.len() as u64);
    Some(Snapshot { digest: d.get() })
}

type SaitoHashT = [u8; 32];

/// tip, by-height index and on-chain flags of `n` against the producer's chain `recs` (ids 1..): inside the
/// genesis window the index must name the chain's block; below it (purged, or the slot re-used by a later lap
/// of the ring) it names that block or nothing; above the tip nothing
fn check_long(r: &mut RunResult, n: &Node, recs: &[BlockRec], gp: u64, what: &str) -> bool {
    let (tip_id, tip_hash) = n.tip();
    let want_tip = recs.last().unwrap();
    if tip_id != want_tip.id || tip_hash != want_tip.hash {
        return false; // the caller decides whether the node had to follow
    }
    for rec in recs {
        let got = n.bc.blockring.get_longest_chain_block_hash_at_block_id(rec.id);
        let in_window = rec.id + gp > tip_id;
        let ok = got == Some(rec.hash) || (got.is_none() && !in_window);
        if !ok {
            r.violate(
                if in_window { "C03|index|wrong-at-height" } else { "C03|index|wrong-below-window" },
                format!("long chain (genesis period {}, {}): tip {}, index at id {} is {:?}, the chain has {}", gp, what, tip_id, rec.id, got.map(hex::encode), hex::encode(rec.hash)),
            );
            return true;
        }
    }
    for id in tip_id + 1..=tip_id + 2 * gp + 2 {
        if let Some(h) = n.bc.blockring.get_longest_chain_block_hash_at_block_id(id) {
            r.violate("C03|index|entry-above-tip", format!("long chain (genesis period {}, {}): index at id {} (> tip {}) is {}", gp, what, id, tip_id, hex::encode(h)));
            return true;
        }
    }
    for (h, b) in n.bc.blocks.iter() {
        let on = recs.iter().any(|x| x.hash == *h);
        if b.in_longest_chain != on {
            r.violate(
                if b.in_longest_chain { "C03|flag|set-off-chain" } else { "C03|flag|unset-on-chain" },
                format!("long chain (genesis period {}, {}): block {} (id {}) in_longest_chain={} but on the chain={}", gp, what, hex::encode(h), b.id, b.in_longest_chain, on),
            );
            return true;
        }
    }
    true
}

fn long_chain_family(plan: &Plan) -> RunResult {
    let mut r = RunResult::default();
    let (gp, len, depth) = plan.long.unwrap();
    let params = Params { genesis_period: gp, heartbeat: 1000, n_users: 3, slips_per_user: 4, base_amount: 1_000_000 };
    let mut rng = Rng::new(mix(plan.seed, 0x10c3));
    let mut c = match crate::util::guarded(|| Chain::new(plan.seed, params.clone(), plan.prune_after.max(1))) {
        Ok(Ok(c)) => c,
        _ => {
            r.discarded = true;
            return r;
        }
    };
    let mut n = Node::new(&c.cfg, &c.keys[2].clone());
    let _ = n.add_block_bytes(&c.recs[0].bytes.clone());
    let mut trace = Digest::new();
    let grow = |c: &mut Chain, rng: &mut Rng, dt: u64| -> Option<usize> {
        let mut txs = vec![];
        let user = 1 + rng.usize_below(3);
        if let Some((t, _)) = c.payment(user, 1 + rng.usize_below(3), rng.usize_below(64), rng.below(3) * 700, 0, &[]) {
            txs.push(t);
        } else {
            let tag = c.tag();
            let ts = c.tip_rec().ts + tag;
            txs.push(make_tx(&c.keys[1].clone(), &[], &[(c.keys[1].pk, 0)], ts, &tag.to_le_bytes()));
        }
        let tip_hash = c.tip_rec().hash;
        let want = (c.tip_rec().id + 1) % 2 == 0;
        let gt = want || !c.node.bc.is_golden_ticket_count_valid(tip_hash, want, false, false);
        match crate::util::guarded(|| c.extend(txs, gt, dt)) {
            Ok(Ok(i)) => Some(i),
            Ok(Err(e)) => {
                if std::env::var("VERIF_DEBUG").is_ok() {
                    eprintln!("long family: producer refused block {}: {}", c.tip_rec().id + 1, e);
                }
                None
            }
            _ => None,
        }
    };
    while c.tip_rec().id < len {
        let i = match grow(&mut c, &mut rng, 2300) {
            Some(i) => i,
            None => {
                // the producer refused its own block (C07's subject; with the treasury payout multiplier
                // above 1 its recorded finding)
                r.probe(if atr_multiplier(&c.node.bc, gp) > 1 { "long_producer_refused_atr_multiplier_above_1" } else { "long_producer_refused_other" });
                break;
            }
        };
        if plan.reject_at > 0 && c.recs[i].id == plan.reject_at + 1 {
            // first an invalid version of this very block
            let good = c.node.bc.get_block(&c.recs[i].hash).cloned();
            if let Some(bad) = good.and_then(|g| tamper_block(&g, "burnfee", &c.keys[0].clone())) {
                let bad_bytes = bad.serialize_for_net(saito_core::core::consensus::block::BlockType::Full);
                let tip0 = n.tip();
                match crate::util::guarded(|| n.add_block_bytes(&bad_bytes)) {
                    Ok(x) => {
                        trace.str(&format!("bad {:?}", x.as_ref().map(outcome_of)));
                        if n.tip() != tip0 {
                            r.violate("C03|tip|moved-to-invalid-block", format!("long chain (genesis period {}): the invalid block {} moved the tip", gp, plan.reject_at + 1));
                            return r;
                        }
                        r.fault("invalid_block_before_ring_wrap", 1);
                    }
                    Err(p) => {
                        r.violate(format!("C03|panic|{}", p.site()), format!("long chain, invalid block: {} ({}:{})", p.msg, p.file, p.line));
                        return r;
                    }
                }
            }
        }
        let bytes = c.recs[i].bytes.clone();
        match crate::util::guarded(|| n.add_block_bytes(&bytes)) {
            Ok(x) => trace.str(&format!("{:?}", x.as_ref().map(outcome_of))),
            Err(p) => {
                r.violate(format!("C03|panic|{}", p.site()), format!("long chain: {} ({}:{})", p.msg, p.file, p.line));
                return r;
            }
        };
        r.steps += 1;
        if !check_long(&mut r, &n, &c.recs, gp, "linear growth") {
            r.violate("C03|tip|not-following", format!("long chain (genesis period {}): after block {} the node's tip is {}", gp, c.tip_rec().id, n.tip().0));
        }
        if !r.violations.is_empty() {
            return r;
        }
    }
    if c.tip_rec().id > 2 * gp {
        r.fault("block_ring_wrapped", (c.tip_rec().id - 1) / (2 * gp));
        let mut d = Digest::new();
        d.u64(gp).u64(c.tip_rec().id).u64(depth).u64(plan.prune_after);
        r.nontrivial.push(d.get());
    }
    // a reorganisation after the wrap
    if depth > 0 && c.recs.len() as u64 > depth + 2 {
        let at = c.recs.len() - 1 - depth as usize;
        if let Ok(Ok(mut f)) = crate::util::guarded(|| c.fork_at(at)) {
            let mut good = true;
            for _ in 0..=depth {
                match grow(&mut f, &mut rng, 2371) {
                    Some(i) => {
                        let bytes = f.recs[i].bytes.clone();
                        if let Err(p) = crate::util::guarded(|| n.add_block_bytes(&bytes)) {
                            r.violate(format!("C03|panic|{}", p.site()), format!("long chain, reorganisation: {} ({}:{})", p.msg, p.file, p.line));
                            return r;
                        }
                    }
                    None => {
                        good = false;
                        break;
                    }
                }
            }
            if good {
                r.fault("reorganisation_after_ring_wrap", 1);
                // the fork is strictly longer; whether it also carries enough burn fee is C05's question:
                // the node is on one of the two chains, and consistent with the one it reports
                let on_fork = n.tip().1 == f.tip_rec().hash;
                let recs = if on_fork { &f.recs } else { &c.recs };
                trace.str(if on_fork { "fork" } else { "main" });
                if !check_long(&mut r, &n, recs, gp, if on_fork { "after the reorganisation" } else { "fork not adopted" }) {
                    r.violate("C03|tip|not-a-delivered-chain-tip", format!("long chain (genesis period {}): after the fork the node's tip {} is the tip of neither chain", gp, n.tip().0));
                }
            }
        }
    }
    trace.bytes(&n.tip().1);
    r.state_hash = trace.get();
    r.trace_hash = trace.get();
    r
}

pub fn build_tree(w: &mut World, nodes: &[TreeNode], seed: u64) -> Result<Vec<(u64, usize)>, String> {
    // returns uid -> world index
    let mut map: Vec<(u64, usize)> = vec![(0, 0)];
    for nd in nodes {
        let pidx = match map.iter().find(|(u, _)| *u == nd.parent) {
            Some((_, i)) => *i,
            None => continue, // parent dropped by shrinking
        };
        let mut rng = Rng::new(mix(seed, nd.uid));
        if nd.invalid.is_empty() {
            let idx = w.honest_child(pidx, &mut rng, nd.ntx, nd.gt, nd.dt, "honest")?;
            map.push((nd.uid, idx));
        } else {
            // build honestly in a scratch position, then tamper and reseal
            let ledger_parent = pidx;
            let idx = w.honest_child(ledger_parent, &mut rng, nd.ntx, nd.gt, nd.dt, "to-tamper")?;
            let b = w.block(idx);
            match tamper_block(&b, &nd.invalid, &w.keys[0].clone()) {
                Some(tb) => {
                    let idx2 = w.register(tb, false, &format!("invalid:{}", nd.invalid));
                    map.push((nd.uid, idx2));
                }
                None => map.push((nd.uid, idx)),
            }
        }
    }
    Ok(map)
}

impl Scenario for C03 {
    fn id(&self) -> &'static str {
        "C03"
    }
    fn meta(&self) -> Meta {
        Meta {
            level: "exploration",
            rule: "run = one block tree built with the real Block::create (cross-fork conflicting spends arise because each fork spends from its own parent's ledger) + one delivery order (permutations incl. child-before-parent, duplicates, header-tampered invalid tips) into one real Blockchain::add_block (prune depth 1, 2, 3 or 8, so that reorganisations unwind blocks whose transactions have to be re-read from disk; one style in five is a single deep reorganisation: branch A delivered completely, then the longer branch B); checked after every delivery against a replay of the reported chain in an independent reference ledger. One random run in twelve is the long-chain family: a producer chain with genesis period 3..6 grown to 1-3 times the block ring (2 x genesis period slots), block by block into a node, in half of them preceded at a height <= gp by an invalid (re-signed, wrong burn fee) version of the next block that the node has to refuse without a trace before the ring wraps over its slot, and optionally followed by a reorganisation of depth 1..gp-2 after the wrap; after every block: tip, by-height index for every id from 1 to tip + ring (the chain's block inside the genesis window, that block or nothing below it, nothing above the tip) and the on-chain flag of every stored block. The first exhaustive_prefix runs enumerate all parent vectors of n non-genesis blocks x all n! delivery orders. distinct_nontrivial = distinct (tree shape, delivery order, invalid set) digests of runs that performed >= 1 reorganisation (tip moved to a block whose parent was not the previous tip).",
            real: &["Blockchain::add_block/validate/wind_chain/unwind_chain", "BlockRing", "RingItem", "Block::create/generate/validate/on_chain_reorganization", "Transaction", "Slip", "Mempool", "Wallet", "Storage", "secp256k1", "blake3"],
            stubs: &["SimIo (in-memory disk, no network)", "SimConfig", "vendored ahash with fixed seeds"],
            assumptions: &["genesis period >> tree height (retention edge is C13's)", "blocks reach add_block decoded from bytes as on the fetch path", "sampling, not proof, beyond the enumerated prefix"],
        }
    }
    fn budget(&self, tier: Tier) -> Budget {
        match tier {
            Tier::Quick => Budget { max_runs: 60_000, wall_s: 40 },
            Tier::Thorough => Budget { max_runs: 3_000_000, wall_s: 420 },
        }
    }
    fn exhaustive_prefix(&self, tier: Tier) -> u64 {
        match tier {
            Tier::Quick => exhaustive_size(4),
            Tier::Thorough => exhaustive_size(5),
        }
    }
    fn generate(&self, seed: u64, index: u64, tier: Tier) -> Value {
        let rs = derive_run_seed(seed, "C03", index);
        let ex = self.exhaustive_prefix(tier);
        let plan = if index < ex {
            gen_exhaustive(rs, if tier == Tier::Quick { 4 } else { 5 }, index)
        } else {
            gen_random(rs, tier)
        };
        serde_json::to_value(plan).unwrap()
    }
    fn execute(&self, plan: &Value) -> RunResult {
        let plan: Plan = serde_json::from_value(plan.clone()).expect("plan");
        if plan.long.is_some() {
            return long_chain_family(&plan);
        }
        let mut r = RunResult::default();
        let mut w = World::new(plan.seed, Params::default());
        let built = crate::util::guarded(|| build_tree(&mut w, &plan.nodes, plan.seed));
        let map = match built {
            Ok(Ok(m)) => m,
            _ => {
                // the builder could not produce this tree; nothing was offered to the node
                r.discarded = true;
                r.probe("builder_failed");
                return r;
            }
        };
        let max_height = w.recs.iter().map(|b| b.id).max().unwrap_or(1);
        let mut ncfg = w.cfg.clone();
        if plan.prune_after > 0 {
            ncfg.consensus.prune_after_blocks = plan.prune_after;
        }
        let mut n = Node::new(&ncfg, &w.keys[1].clone());
        let mut trace = Digest::new();
        // genesis first
        let g = n.add_block_bytes(&w.recs[0].bytes.clone());
        if !matches!(g.as_ref().map(outcome_of), Some(AddOutcome::Added { longest: true })) {
            r.violate("C03|genesis|rejected", "genesis block not accepted");
            return r;
        }
        let mut reorgs = 0u64;
        let mut orphan_seen = false;
        let mut prev_tip = n.tip().1;
        let mut shape = Digest::new();
        for nd in &plan.nodes {
            shape.u64(nd.uid).u64(nd.parent).str(&nd.invalid);
        }
        for u in &plan.order {
            shape.u64(*u);
        }
        for (step, uid) in plan.order.iter().enumerate() {
            let idx = match map.iter().find(|(u, _)| u == uid) {
                Some((_, i)) => *i,
                None => continue,
            };
            let bytes = w.recs[idx].bytes.clone();
            let parent_known = n.bc.blocks.contains_key(&w.recs[idx].parent);
            // does the block's ancestry reach genesis through blocks the node holds? (a child of a stored parentless
            // block has a known parent and is parentless all the same)
            let connected = {
                let mut cur = w.recs[idx].parent;
                let mut ok = true;
                let mut guard = 0;
                while cur != [0u8; 32] {
                    guard += 1;
                    match (n.bc.blocks.contains_key(&cur), w.by_hash.get(&cur)) {
                        (true, Some(pi)) if guard < 10_000 => cur = w.recs[*pi].parent,
                        _ => {
                            ok = false;
                            break;
                        }
                    }
                }
                ok
            };
            if parent_known && !connected {
                r.fault("delivery_on_top_of_a_parentless_block", 1);
                orphan_seen = true;
            }
            if !parent_known {
                r.fault("orphan_delivery", 1);
                // the recorded orphan-branch finding clears the longest-chain marks *above* the parentless block's
                // id (or adopts a parentless chain above the tip). A parentless block of exactly the tip's height
                // touches nothing - the branch's loop is empty and a one-block chain is not longer than the tip's -
                // and is simply stored: divergence after only such deliveries is not that finding
                if w.recs[idx].id == n.tip().0 && n.tip().0 > 0 {
                    r.fault("orphan_delivery_at_tip_height", 1);
                } else {
                    orphan_seen = true;
                }
            }
            if n.bc.blocks.contains_key(&w.recs[idx].hash) {
                r.fault("duplicate_delivery", 1);
            }
            if !w.recs[idx].valid {
                r.fault("invalid_block_delivery", 1);
            }
            saito_core::core::util::verif::set_step_budget(4 * (max_height + 4) + 64);
            let res = n.add_block_bytes(&bytes);
            saito_core::core::util::verif::set_step_budget(u64::MAX);
            let oc = res.as_ref().map(outcome_of);
            trace.u64(step as u64).str(&format!("{:?}", oc));
            r.steps += 1;
            let tip = n.tip().1;
            if tip != prev_tip {
                if let Some(ti) = w.by_hash.get(&tip) {
                    if w.recs[*ti].parent != prev_tip {
                        reorgs += 1;
                    }
                }
                prev_tip = tip;
            }
            let mut tmp = RunResult::default();
            match check_node(&w, &n, &mut tmp, max_height, step) {
                Some(s) => {
                    trace.u64(s.digest);
                    r.state_hash = s.digest;
                }
                None => {
                    for v in tmp.violations {
                        if orphan_seen {
                            // every divergence after a block was delivered before its parent is
                            // one class: the orphan branch of add_block (see DESIGN §9 / known findings)
                            r.violate(
                                "C03|after-orphan-delivery|diverged",
                                format!("a block was delivered before its parent; afterwards: {}", v.detail),
                            );
                        } else {
                            r.violate(v.signature, v.detail);
                        }
                    }
                    break;
                }
            }
        }
        r.probe_n("reorganisations", reorgs);
        if reorgs > 0 {
            r.nontrivial.push(shape.get());
        }
        r.trace_hash = trace.get();
        r
    }
    fn shrink(&self, plan: &Value) -> Vec<Value> {
        let plan: Plan = match serde_json::from_value(plan.clone()) {
            Ok(p) => p,
            Err(_) => return vec![],
        };
        let mut out = vec![];
        // truncate the delivery order
        if plan.order.len() > 1 {
            let mut p = plan.clone();
            p.order.truncate(plan.order.len() / 2);
            out.push(p);
            let mut p = plan.clone();
            p.order.pop();
            out.push(p);
        }
        // drop one delivery
        for i in 0..plan.order.len() {
            let mut p = plan.clone();
            p.order.remove(i);
            out.push(p);
        }
        // drop a leaf node (and its deliveries)
        for nd in plan.nodes.iter().rev() {
            if plan.nodes.iter().any(|x| x.parent == nd.uid) {
                continue;
            }
            let mut p = plan.clone();
            p.nodes.retain(|x| x.uid != nd.uid);
            p.order.retain(|u| *u != nd.uid);
            out.push(p);
        }
        // simplify nodes
        for (i, nd) in plan.nodes.iter().enumerate() {
            if nd.ntx > 1 {
                let mut p = plan.clone();
                p.nodes[i].ntx = 1;
                out.push(p);
            }
            if !nd.invalid.is_empty() {
                let mut p = plan.clone();
                p.nodes[i].invalid = String::new();
                out.push(p);
            }
        }
        out.into_iter().map(|p| serde_json::to_value(p).unwrap()).collect()
    }
}
