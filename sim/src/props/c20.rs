//! C20 — the shared locks are taken in the documented global order (configuration 3 < blockchain 4
//! < mempool 5 < peers 6 < wallet 7), hence no set of tasks can deadlock on them.
//!
//! Two deciding mechanisms over one workload (a producing node, observers that dial and sync from
//! it, wallets / peers that connect, authenticate, send transactions and leave):
//!
//! * rank monitor (hook H5): every lock *request* made by saito-core code is logged with the locks
//!   the requesting task holds; a request for rank r while a lock of rank > r is held is an
//!   inversion unless the task write-holds a lower-ranked lock that every observed opposite-order
//!   acquisition also holds (the "common outer lock" clause).
//! * await-point / lock-point interleaving (SimExec): the four processors of a node run as
//!   concurrent tasks; a seeded scheduler picks which woken task is polled next, tasks are
//!   suspended with a seeded probability before every lock request and inside every I/O call.
//!   Unfinished tasks with nobody woken = deadlock; the report lists who holds and awaits what.

use std::collections::{BTreeMap, BTreeSet};

use saito_core::core::msg::handshake::HandshakeResponse;
use saito_core::core::msg::message::Message;
use saito_core::core::util::crypto::sign;
use saito_core::core::util::verif;
use serde::{Deserialize, Serialize};
use saito_core::core::util::serialize::Serialize as SaitoSerialize;
use serde_json::Value;

use crate::framework::*;
use crate::l2::*;
use crate::rng::{mix, Rng};
use crate::simcfg::SimConfig;
use crate::simio::JournalOp;
use crate::util::{block_on, Digest};
use crate::world::*;

pub struct C20;

#[derive(Clone, Debug, Serialize, Deserialize)]
pub struct Op {
    pub k: String,
    pub a: u64,
    pub b: u64,
}

#[derive(Clone, Debug, Serialize, Deserialize)]
pub struct Plan {
    pub seed: u64,
    /// 0 = handlers run to completion one at a time (rank monitor only); > 0 = processors of a
    /// node run concurrently and are suspended with this probability (per mille) at every lock
    /// request and I/O call
    pub yield_pm: u64,
    pub gp: u64,
    pub heartbeat: u64,
    pub observers: usize,
    /// the last observer runs in SPV (lite) mode: ghost-chain sync instead of full sync
    #[serde(default)]
    pub lite_observer: bool,
    pub ops: Vec<Op>,
}

const KINDS: [&str; 20] = ["tx-batch", "tx", "tx", "tx", "tick", "tick", "tick-long", "tick-long", "ext-connect", "ext-connect", "ext-respond", "ext-respond", "ext-disconnect", "observer-restart", "chain-request", "key-list", "services", "ghost-request", "announce", "announce"];

fn gen(seed: u64, tier: Tier) -> Plan {
    let mut rng = Rng::new(seed);
    let n = rng.range(10, if tier == Tier::Quick { 60 } else { 160 });
    let ops = (0..n).map(|_| Op { k: rng.pick(&KINDS).to_string(), a: rng.below(64), b: rng.below(64) }).collect();
    Plan {
        seed,
        yield_pm: *rng.pick(&[0u64, 100, 300, 300, 600, 900]),
        gp: *rng.pick(&[5u64, 20, 100]),
        heartbeat: *rng.pick(&[200u64, 1000, 5000]),
        observers: rng.range(0, 2) as usize,
        lite_observer: rng.chance(1, 4),
        ops,
    }
}

pub fn rank_name(r: u8) -> &'static str {
    match r {
        3 => "config",
        4 => "blockchain",
        5 => "mempool",
        6 => "peers",
        7 => "wallet",
        _ => "other",
    }
}

fn short(file: &str) -> String {
    file.rsplit('/').next().unwrap_or(file).to_string()
}

fn in_core(file: &str) -> bool {
    file.contains("saito-core/src/")
}

/// the rank rule over a log of lock requests; returns (signature, detail)
pub fn analyse(log: &[verif::Acquisition]) -> Vec<(String, String)> {
    // forward edges: (held rank, acquired rank) -> for every occurrence the set of ranks held
    let mut forward: BTreeMap<(u8, u8), Vec<BTreeSet<u8>>> = BTreeMap::new();
    for a in log {
        if !in_core(a.file) || a.rank == 0 {
            continue;
        }
        let held: Vec<&verif::Held> = a.held.iter().filter(|h| in_core(h.file) && h.rank != 0).collect();
        let ranks: BTreeSet<u8> = held.iter().map(|h| h.rank).collect();
        for h in &held {
            if h.rank < a.rank {
                forward.entry((h.rank, a.rank)).or_default().push(ranks.clone());
            }
        }
    }
    let mut out: Vec<(String, String)> = vec![];
    for a in log {
        if !in_core(a.file) || a.rank == 0 {
            continue;
        }
        let held: Vec<&verif::Held> = a.held.iter().filter(|h| in_core(h.file) && h.rank != 0).collect();
        for h in &held {
            if h.rank == a.rank {
                // asking again for a lock the task already holds: with a write on either side (or a
                // writer queued in between) the task waits for itself
                if h.write || a.write {
                    out.push((
                        format!("C20|order|{}-reacquired|{}<-{}", rank_name(a.rank), short(a.file), short(h.file)),
                        format!("task {} asks for {} ({}) at {}:{} while holding it ({}) from {}:{}", a.task, rank_name(a.rank), if a.write { "write" } else { "read" }, a.file, a.line, if h.write { "write" } else { "read" }, h.file, h.line),
                    ));
                }
                continue;
            }
            if h.rank < a.rank {
                continue;
            }
            // inversion: holds h.rank > a.rank. common outer lock?
            let excused = held.iter().any(|o| {
                o.write
                    && o.rank < a.rank
                    && o.token < h.token
                    && forward.get(&(a.rank, h.rank)).map_or(true, |occ| occ.iter().all(|ranks| ranks.contains(&o.rank)))
            });
            if excused {
                continue;
            }
            out.push((
                format!("C20|order|{}-held-then-{}|{}<-{}", rank_name(h.rank), rank_name(a.rank), short(a.file), short(h.file)),
                format!(
                    "task {} asks for {} ({}) at {}:{} while holding {} ({}) taken at {}:{}; held: [{}]",
                    a.task,
                    rank_name(a.rank),
                    if a.write { "write" } else { "read" },
                    a.file,
                    a.line,
                    rank_name(h.rank),
                    if h.write { "write" } else { "read" },
                    h.file,
                    h.line,
                    held.iter().map(|x| format!("{}{}", rank_name(x.rank), if x.write { "(w)" } else { "(r)" })).collect::<Vec<_>>().join(", ")
                ),
            ));
        }
    }
    out.sort();
    out.dedup_by(|a, b| a.0 == b.0);
    out
}

pub fn proc_name(p: usize) -> &'static str {
    match p {
        P_ROUTING => "routing",
        P_CONSENSUS => "consensus",
        P_VERIFICATION => "verification",
        _ => "mining",
    }
}

pub fn deadlock_signature(d: &DeadlockReport) -> (String, String) {
    let mut parts: Vec<String> = d
        .tasks
        .iter()
        .map(|(p, held, w)| {
            let hs: BTreeSet<&str> = held.iter().map(|h| rank_name(h.0)).collect();
            format!("{}:{}>{}", proc_name(*p), hs.into_iter().collect::<Vec<_>>().join("+"), w.as_ref().map_or("?", |w| rank_name(w.0)))
        })
        .collect();
    parts.sort();
    let detail = d
        .tasks
        .iter()
        .map(|(p, held, w)| {
            format!(
                "{} holds [{}] and waits for {}",
                proc_name(*p),
                held.iter().map(|h| format!("{}({}) from {}:{}", rank_name(h.0), if h.1 { "w" } else { "r" }, h.2, h.3)).collect::<Vec<_>>().join(", "),
                w.as_ref().map_or("?".to_string(), |w| format!("{}({}) at {}:{}", rank_name(w.0), if w.1 { "w" } else { "r" }, w.2, w.3))
            )
        })
        .collect::<Vec<_>>()
        .join("; ");
    (format!("C20|deadlock|{}", parts.join("|")), format!("node{} after {} polls: {}", d.node, d.polls, detail))
}

impl Scenario for C20 {
    fn id(&self) -> &'static str {
        "C20"
    }
    fn meta(&self) -> Meta {
        Meta {
            level: "exploration",
            rule: "run = a producing full node (timer bundling, real miner, pool fed by an authenticated wallet), 0..2 observer nodes that dial it, handshake and sync, and up to 4 further external peers that connect, answer or ignore the challenge, ask for the chain, send key lists and leave; 10..60/160 scripted operations (every other observer crash loses the file of the observer's tip block and leaves an operator-style checkpoint file for it, so that the re-fetched block takes the checkpoint path of add_blocks_from_mempool). Every lock request of saito-core code is logged by hook H5 with the locks the task holds. Oracle 1 (rank monitor): no request for rank r while the task holds rank > r (config 3 < blockchain 4 < mempool 5 < peers 6 < wallet 7) unless the task write-holds a lower-ranked lock that every observed opposite-order acquisition also holds; no re-request of a held lock with a write on either side. Oracle 2 (deadlock, yield_pm > 0): the processors of a node run as concurrent tasks (one handler or timer call each); a seeded choice picks the next woken task; every lock request and every I/O call suspends the task with probability yield_pm/1000; unfinished tasks with none woken is a deadlock and is reported with holders and awaited locks. distinct_nontrivial = distinct (ordered pair of ranks held->requested, requesting site) and distinct schedule digests of concurrent groups.",
            real: &["RoutingThread", "ConsensusThread", "VerificationThread", "MiningThread", "Network (handshake, propagation, chain request)", "Blockchain::add_block / add_blocks_from_mempool", "Mempool", "Wallet", "tokio::sync::RwLock (wrapped, not replaced)"],
            stubs: &["poll-level scheduler instead of the tokio runtime (one task per processor and node)", "SimNet, SimDisk, SimClock", "saito-rust, saito-spammer and saito-wasm callers are not run"],
            assumptions: &["only executed paths are judged (dynamic monitor)", "parallelism is modelled at lock-request and I/O granularity"],
        }
    }
    fn budget(&self, tier: Tier) -> Budget {
        match tier {
            Tier::Quick => Budget { max_runs: 40_000, wall_s: 45 },
            Tier::Thorough => Budget { max_runs: 2_000_000, wall_s: 480 },
        }
    }
    fn generate(&self, seed: u64, index: u64, tier: Tier) -> Value {
        serde_json::to_value(gen(derive_run_seed(seed, "C20", index), tier)).unwrap()
    }
    fn execute(&self, plan: &Value) -> RunResult {
        let plan: Plan = serde_json::from_value(plan.clone()).expect("plan");
        let mut r = RunResult::default();
        let pk = derive_key(plan.seed, 0);
        let users: Vec<Key> = (1..=3).map(|i| derive_key(plan.seed, i)).collect();
        let ext_keys: Vec<Key> = (0..5).map(|i| derive_key(plan.seed, 40 + i)).collect();
        let mut cfg = SimConfig::new(plan.gp, plan.heartbeat);
        cfg.consensus.prune_after_blocks = 8;
        let mut sim = Sim::new(mix(plan.seed, 201), TS0);
        let mut opts = NodeOpts::default();
        opts.produce_blocks_by_timer = true;
        opts.mining_enabled = true;
        opts.mining_iterations = 8;
        verif::lock_log_start();
        let p = sim.add_node(&pk, &cfg, &opts);
        {
            let mut txt = String::new();
            for (ui, u) in users.iter().enumerate() {
                for s in 0..6u64 {
                    txt.push_str(&format!("{}\t{}\tNormal\n", 50_000_000 * (s + 1) + ui as u64 + 30_000, u.pk.to_base58()));
                }
            }
            let mut d = sim.nodes[p].disk.lock().unwrap();
            d.apply(&JournalOp::Write { path: "./data/issuance/issuance".to_string(), data: txt.into_bytes() });
        }
        sim.init_node(p, true);
        let mut ocfg = cfg.clone();
        ocfg.peers = vec![static_peer("node0")];
        let mut oopts = NodeOpts::default();
        oopts.mining_enabled = false;
        let mut obs = vec![];
        for i in 0..plan.observers {
            let k = derive_key(plan.seed, 20 + i as u64);
            let lite = plan.lite_observer && i + 1 == plan.observers;
            let mut lcfg = ocfg.clone();
            lcfg.spv = lite;
            let o = sim.add_node(&k, if lite { &lcfg } else { &ocfg }, &oopts);
            if lite {
                r.fault("lite_observer", 1);
            }
            sim.init_node(o, false);
            obs.push(o);
        }
        let version = saito_core::core::process::version::read_pkg_version();
        use saito_core::core::defs::PrintForLog;
        let mut trace = Digest::new();
        let mut deadlock: Option<DeadlockReport> = None;
        let mut stalled = false;
        let yield_pm = plan.yield_pm;

        // external connections: ext id -> (conn, pending challenge)
        let mut ext_conn: Vec<Option<usize>> = vec![None; 5];
        let mut ext_challenge: Vec<Option<[u8; 32]>> = vec![None; 5];
        let mut ext_authed: Vec<bool> = vec![false; 5];
        // wallet view
        let mut ledger = RefLedger::default();
        let mut seen_blocks: Vec<[u8; 32]> = vec![];
        let mut pending_spent: Vec<UtxoKey> = vec![];
        let mut tagc = 0u64;

        macro_rules! settle {
            () => {{
                let mut k = 0;
                loop {
                    sim.resolve_connects(|n, _| if n != 0 { Some(0) } else { None });
                    let more = if yield_pm == 0 {
                        sim.step()
                    } else {
                        match sim.step_concurrent(yield_pm) {
                            Ok(m) => m,
                            Err(d) => {
                                deadlock = Some(d);
                                false
                            }
                        }
                    };
                    if !more {
                        break;
                    }
                    k += 1;
                    if k > 50_000 {
                        stalled = true;
                        break;
                    }
                }
            }};
        }
        macro_rules! tick_all {
            ($ms:expr) => {{
                sim.advance($ms);
                if yield_pm > 0 && sim.rng.chance(3, 4) {
                    // messages in flight reach the nodes' inboxes, so that the routing processor has
                    // a network event to handle while the other processors are in their timer calls
                    let mut k = 0;
                    loop {
                        let acts: Vec<Action> = sim.enabled().into_iter().filter(|a| matches!(a, Action::Deliver(_, _))).collect();
                        if acts.is_empty() || k > 200 {
                            break;
                        }
                        let a = acts[sim.rng.usize_below(acts.len())].clone();
                        sim.apply(a);
                        k += 1;
                    }
                }
                for n in 0..sim.nodes.len() {
                    if deadlock.is_some() {
                        break;
                    }
                    if yield_pm == 0 {
                        sim.tick(n, P_ROUTING);
                        sim.tick(n, P_MINING);
                        sim.tick(n, P_CONSENSUS);
                        if sim.rng.chance(1, 8) {
                            let spec: Vec<(usize, u8)> = vec![(P_ROUTING, 2), (P_CONSENSUS, 2), (P_VERIFICATION, 2), (P_MINING, 2)];
                            let _ = sim.run_tasks_k(n, &spec, 0);
                        }
                    } else {
                        // every processor is either in its timer call or in an event handler
                        let mut spec: Vec<(usize, bool)> = vec![];
                        for pr in [P_ROUTING, P_CONSENSUS, P_MINING, P_VERIFICATION] {
                            let has_event = match pr {
                                P_ROUTING => !sim.nodes[n].net_in.is_empty() || !sim.nodes[n].q_routing.is_empty(),
                                P_CONSENSUS => !sim.nodes[n].q_consensus.is_empty(),
                                P_VERIFICATION => !sim.nodes[n].q_verification.is_empty(),
                                _ => !sim.nodes[n].q_mining.is_empty(),
                            };
                            if pr == P_VERIFICATION {
                                if has_event {
                                    spec.push((pr, false));
                                }
                            } else if has_event && sim.rng.chance(1, 2) {
                                spec.push((pr, false));
                            } else {
                                spec.push((pr, true));
                            }
                        }
                        // now and then a processor is in its statistics call instead
                        let mut spec: Vec<(usize, u8)> = spec.into_iter().map(|(p, t)| (p, if sim.rng.chance(1, 8) { 2u8 } else { t as u8 })).collect();
                        sim.rng.shuffle(&mut spec);
                        *sim.fired.entry("concurrent_timer_groups".into()).or_insert(0) += 1;
                        if let Err(d) = sim.run_tasks_k(n, &spec, yield_pm) {
                            deadlock = Some(d);
                        }
                    }
                }
            }};
        }

        // wallet peer (ext 0) authenticates with user 1's key
        let (wc, _widx) = sim.connect_external(0, p);
        sim.settle_without_fetches(3000);
        for (_c, m) in sim.take_ext_inbox(0) {
            if let Ok(Message::HandshakeChallenge(ch)) = Message::deserialize(m) {
                let resp = HandshakeResponse {
                    public_key: users[0].pk,
                    signature: sign(&ch.challenge, &users[0].sk),
                    is_lite: true,
                    block_fetch_url: String::new(),
                    challenge: [1; 32],
                    services: vec![],
                    wallet_version: version,
                    core_version: version,
                };
                sim.ext_send(wc, Message::HandshakeResponse(resp).serialize());
            }
        }
        tick_all!(1100);
        settle!();
        tick_all!(2100);
        settle!();
        let mut restarted_at: Option<usize> = None;
        for (oi, op) in plan.ops.iter().enumerate() {
            if deadlock.is_some() || stalled || !sim.panics.is_empty() {
                break;
            }
            trace.str(&op.k).u64(op.a).u64(op.b);
            // the wallet learns the producer's chain
            {
                let bc = block_on(sim.nodes[p].blockchain_lock.read());
                let mut chain = vec![];
                let mut cur = bc.get_latest_block_hash();
                while cur != [0; 32] && !seen_blocks.contains(&cur) {
                    match bc.get_block(&cur) {
                        Some(b) => {
                            chain.push(b.hash);
                            cur = b.previous_block_hash;
                        }
                        None => break,
                    }
                }
                chain.reverse();
                for h in chain {
                    if let Some(b) = bc.get_block(&h) {
                        if b.transactions.is_empty() && b.id > 1 {
                            continue;
                        }
                        ledger.apply(&rec_from_block(b, true, "produced"));
                        seen_blocks.push(h);
                    }
                }
            }
            let tip_id = sim.nodes[p].tip().0;
            match op.k.as_str() {
                "tx" => {
                    let u = &users[(op.a % 3) as usize];
                    let mine: Vec<SlipRef> = ledger.unspent_of(&u.pk).into_iter().filter(|s| s.block_id + plan.gp > tip_id + 1 && !pending_spent.contains(&s.key())).collect();
                    if !mine.is_empty() {
                        let inp = mine[(op.b as usize) % mine.len()].clone();
                        let fee = (op.b * 997) % (inp.amount / 3 + 1);
                        let to = &users[((op.a + 1) % 3) as usize];
                        tagc += 1;
                        let rest = inp.amount - fee;
                        let tx = make_tx(u, &[inp.clone()], &[(to.pk, rest / 2), (u.pk, rest - rest / 2)], sim.now() + tagc, &tagc.to_le_bytes());
                        sim.ext_send(wc, Message::Transaction(tx).serialize());
                        pending_spent.push(inp.key());
                    }
                }
                "tx-batch" => {
                    // the batch form of the verification request (used by embedding binaries)
                    let mut batch = std::collections::VecDeque::new();
                    for j in 0..(1 + op.b % 3) {
                        let u = &users[((op.a + j) % 3) as usize];
                        let mine: Vec<SlipRef> = ledger.unspent_of(&u.pk).into_iter().filter(|s| s.block_id + plan.gp > tip_id + 1 && !pending_spent.contains(&s.key())).collect();
                        if let Some(inp) = mine.first().cloned() {
                            tagc += 1;
                            batch.push_back(make_tx(u, &[inp.clone()], &[(u.pk, inp.amount)], sim.now() + tagc, &tagc.to_le_bytes()));
                            pending_spent.push(inp.key());
                        }
                    }
                    if !batch.is_empty() && sim.nodes[p].dead.is_none() {
                        sim.nodes[p].q_verification.push_back(saito_core::core::verification_thread::VerifyRequest::Transactions(batch));
                        r.fault("transaction_batch_request", 1);
                    }
                }
                "tick" => tick_all!(1000 + (op.a % 3) * 700),
                "tick-long" => tick_all!((2 * plan.heartbeat).max(5000) + 1200),
                "ext-connect" => {
                    let e = 1 + (op.a % 4) as usize;
                    if ext_conn[e].is_none() {
                        let target = if !obs.is_empty() && op.b % 4 == 0 { obs[(op.b as usize / 4) % obs.len()] } else { p };
                        if sim.nodes[target].dead.is_none() {
                            let (c, _idx) = sim.connect_external(e, target);
                            ext_conn[e] = Some(c);
                            ext_challenge[e] = None;
                            ext_authed[e] = false;
                            r.fault("external_peer_connected", 1);
                        }
                    }
                }
                "ext-respond" => {
                    let e = 1 + (op.a % 4) as usize;
                    if let (Some(c), Some(ch)) = (ext_conn[e], ext_challenge[e]) {
                        if !ext_authed[e] {
                            let resp = HandshakeResponse {
                                public_key: ext_keys[e].pk,
                                signature: sign(&ch, &ext_keys[e].sk),
                                is_lite: op.b % 2 == 0,
                                block_fetch_url: if op.b % 2 == 0 { String::new() } else { format!("http://ext{}", e) },
                                challenge: [e as u8; 32],
                                services: vec![],
                                wallet_version: version,
                                core_version: if op.b % 7 == 3 { Default::default() } else { version },
                            };
                            sim.ext_send(c, Message::HandshakeResponse(resp).serialize());
                            if op.b % 7 == 3 {
                                // refused (no version): the node disconnects this peer
                                ext_conn[e] = None;
                                ext_challenge[e] = None;
                                r.fault("external_handshake_without_version", 1);
                                continue;
                            }
                            ext_authed[e] = true;
                            r.fault("external_handshake_completed", 1);
                        }
                    }
                }
                "ext-disconnect" => {
                    let e = 1 + (op.a % 4) as usize;
                    if let Some(c) = ext_conn[e].take() {
                        sim.close_conn(c);
                        ext_challenge[e] = None;
                        ext_authed[e] = false;
                        r.fault("external_peer_disconnected", 1);
                    }
                }
                "chain-request" => {
                    let e = 1 + (op.a % 4) as usize;
                    if let Some(c) = ext_conn[e] {
                        if ext_authed[e] {
                            let mut b = vec![];
                            b.extend_from_slice(&(op.b % (tip_id + 1)).to_be_bytes());
                            b.extend_from_slice(&[0u8; 32]);
                            b.extend_from_slice(&[0u8; 32]);
                            if let Ok(req) = saito_core::core::msg::block_request::BlockchainRequest::deserialize(&b) {
                                sim.ext_send(c, Message::BlockchainRequest(req).serialize());
                                r.fault("external_chain_request", 1);
                            }
                        }
                    }
                }
                "key-list" => {
                    let e = 1 + (op.a % 4) as usize;
                    if let Some(c) = ext_conn[e] {
                        if ext_authed[e] {
                            sim.ext_send(c, Message::KeyListUpdate(vec![users[(op.b % 3) as usize].pk]).serialize());
                            r.fault("external_key_list", 1);
                        }
                    }
                }
                "services" => {
                    let e = 1 + (op.a % 4) as usize;
                    if let (Some(c), true) = (ext_conn[e], ext_authed[e]) {
                        sim.ext_send(c, Message::Services(vec![]).serialize());
                        r.fault("external_services", 1);
                    }
                }
                "ghost-request" => {
                    let e = 1 + (op.a % 4) as usize;
                    if let (Some(c), true) = (ext_conn[e], ext_authed[e]) {
                        let tip = sim.nodes[p].tip();
                        sim.ext_send(c, Message::GhostChainRequest(tip.0.saturating_sub(op.b % 4), tip.1, [0; 32]).serialize());
                        r.fault("external_ghost_request", 1);
                    }
                }
                "announce" => {
                    // a peer announces a block and serves garbage, a different block, or a block
                    // that parses and links to the tip but does not validate
                    let e = 1 + (op.a % 4) as usize;
                    if let (Some(c), true) = (ext_conn[e], ext_authed[e]) {
                        let tip = sim.nodes[p].tip();
                        let tip_bytes = {
                            let bc = block_on(sim.nodes[p].blockchain_lock.read());
                            bc.get_block(&tip.1).map(|b| b.serialize_for_net(saito_core::core::consensus::block::BlockType::Full))
                        };
                        if let Some(tb) = tip_bytes {
                            let mut h = [0u8; 32];
                            h[0] = op.b as u8;
                            h[1] = oi as u8;
                            h[2] = 0xC2;
                            let (hash, id, body) = match op.b % 3 {
                                0 => (h, tip.0 + 1, vec![op.b as u8; 40 + op.b as usize]),
                                1 => (h, tip.0 + 1, tb),
                                _ => {
                                    let mut nb = saito_core::core::consensus::block::Block::deserialize_from_net(&tb).expect("own block parses");
                                    nb.previous_block_hash = tip.1;
                                    nb.id = tip.0 + 1;
                                    nb.timestamp += 1 + op.b;
                                    let _ = nb.generate();
                                    (nb.hash, nb.id, nb.serialize_for_net(saito_core::core::consensus::block::BlockType::Full))
                                }
                            };
                            sim.ext_blocks.insert(hash, body);
                            sim.ext_send(c, Message::BlockHeaderHash(hash, id).serialize());
                            r.fault(["announced_garbage_body", "announced_wrong_block", "announced_invalid_block"][(op.b % 3) as usize], 1);
                        }
                    }
                }
                "observer-restart" => {
                    if !obs.is_empty() && restarted_at.map_or(true, |x| oi > x + 5) {
                        let o = obs[(op.a as usize) % obs.len()];
                        let lite = plan.lite_observer && o == *obs.last().unwrap();
                        let mut lcfg = ocfg.clone();
                        lcfg.spv = lite;
                        // every other crash loses the file of the observer's tip block (a lost write): after the
                        // restart it fetches that block again from the producer. An operator-supplied checkpoint
                        // file for it (here: one that lists no keys) is then processed on the network path
                        if op.b % 2 == 0 && !lite {
                            let (tid, th) = sim.nodes[o].tip();
                            if tid > 1 {
                                let hex = hex::encode(th);
                                let mut d = sim.nodes[o].disk.lock().unwrap();
                                let victim: Option<String> = d.files.keys().find(|k| k.starts_with(crate::simio::BLOCK_DIR) && k.contains(&hex)).cloned();
                                if let Some(path) = victim {
                                    d.files.remove(&path);
                                    d.files.insert(format!("{}{}-{}.chk", crate::simio::CHECKPOINT_DIR, tid, hex), vec![]);
                                    drop(d);
                                    r.fault("tip_block_file_lost_and_checkpoint_file_present", 1);
                                }
                            }
                        }
                        sim.restart_node(o, if lite { &lcfg } else { &ocfg }, &oopts, None);
                        sim.init_node(o, false);
                        restarted_at = Some(oi);
                        // connections of externals to the restarted node are gone
                        for e in 1..5 {
                            if let Some(c) = ext_conn[e] {
                                if !sim.conns[c].open {
                                    ext_conn[e] = None;
                                    ext_authed[e] = false;
                                    ext_challenge[e] = None;
                                }
                            }
                        }
                        r.fault("observer_crash_restart", 1);
                    }
                }
                _ => {}
            }
            // message-sending operations often leave their messages in flight, so that the next
            // timer round meets them
            let is_tick = matches!(op.k.as_str(), "tick" | "tick-long" | "observer-restart");
            if is_tick || yield_pm == 0 || (op.a + op.b) % 3 == 0 {
                settle!();
            }
            for e in 0..5 {
                for (c, m) in sim.take_ext_inbox(e) {
                    if Some(c) == ext_conn[e] {
                        if let Ok(Message::HandshakeChallenge(ch)) = Message::deserialize(m) {
                            ext_challenge[e] = Some(ch.challenge);
                        }
                    }
                }
            }
        }
        let log = verif::lock_log_take();
        // coverage: which acquisition sites ran, which ordered rank pairs were seen
        let mut sites: BTreeSet<(String, u32)> = BTreeSet::new();
        for a in &log {
            if !in_core(a.file) {
                continue;
            }
            sites.insert((short(a.file), a.line));
            for h in a.held.iter().filter(|h| in_core(h.file)) {
                let mut d = Digest::new();
                d.u64(h.rank as u64).u64(a.rank as u64).str(a.file).u64(a.line as u64);
                r.nontrivial.push(d.get());
                if a.task != 0 {
                    r.probe(&format!("edge_under_concurrency|{}->{}", rank_name(h.rank), rank_name(a.rank)));
                }
            }
        }
        for (f, l) in &sites {
            r.probe(&format!("site|{}:{}", f, l));
        }
        r.probe_n("lock_requests", log.len() as u64);
        for (sig, detail) in analyse(&log) {
            r.violate(sig, detail);
        }
        if let Some(d) = &deadlock {
            let (sig, detail) = deadlock_signature(d);
            r.violate(sig, detail);
        }
        if stalled {
            r.violate("C20|stall", "no quiescence within 50000 scheduler steps");
        }
        if let Some((n, what, pan)) = sim.panics.first() {
            // a panic is C11's subject; here it only ends the run
            r.probe(&format!("run_ended_by_panic|{}|{}", what, pan.site()));
            let _ = n;
        }
        r.steps = sim.steps;
        r.sim_time_ms = sim.now() - TS0;
        for (k, v) in sim.fired.iter() {
            r.fault(k, *v);
        }
        if yield_pm > 0 {
            r.fault("task_suspended_at_lock_or_io", sim.fired.get("concurrent_handlers").cloned().unwrap_or(0) + sim.fired.get("concurrent_timer_groups").cloned().unwrap_or(0));
            r.nontrivial.push(sim.schedule_digest.get());
        }
        r.probe_n("blocks_produced", sim.nodes[p].consensus.stats.blocks_created.total);
        r.schedule_hash = sim.schedule_digest.get();
        trace.u64(sim.schedule_digest.get()).bytes(&sim.nodes[p].tip().1).u64(log.len() as u64);
        r.state_hash = trace.get();
        r.trace_hash = trace.get();
        r
    }
    fn shrink(&self, plan: &Value) -> Vec<Value> {
        let plan: Plan = match serde_json::from_value(plan.clone()) {
            Ok(p) => p,
            Err(_) => return vec![],
        };
        let mut out = vec![];
        let n = plan.ops.len();
        if n > 1 {
            let mut p = plan.clone();
            p.ops.truncate(n / 2);
            out.push(p);
            let mut p = plan.clone();
            p.ops.truncate(n - 1);
            out.push(p);
            for chunk in [n / 4, 1] {
                if chunk == 0 {
                    continue;
                }
                let mut i = 0;
                while i < n && out.len() < 60 {
                    let mut p = plan.clone();
                    let end = (i + chunk).min(n);
                    p.ops.drain(i..end);
                    out.push(p);
                    i += chunk;
                }
            }
        }
        if plan.observers > 0 {
            let mut p = plan.clone();
            p.observers -= 1;
            out.push(p);
        }
        out.into_iter().map(|p| serde_json::to_value(p).unwrap()).collect()
    }
}
