//! C10 — decoders are total: malformed bytes are rejected, never crash.
//!
//! Corruption is the injected fault: every valid encoding that crosses the simulated wire or disk
//! (each message tag, blocks, transactions, slips, hops, wallet file, block file) is truncated at
//! every length and has every 4-byte window overwritten with boundary values; each variant is
//! given to the decoder directly (panic + peak-allocation oracle) and delivered through the real
//! entry point (routing handler / fetched block buffer / file present at restart).

use saito_core::core::consensus::block::{Block, BlockType};
use saito_core::core::consensus::golden_ticket::GoldenTicket;
use saito_core::core::consensus::hop::Hop;
use saito_core::core::consensus::peers::peer_service::PeerService;
use saito_core::core::consensus::slip::Slip;
use saito_core::core::consensus::transaction::{Transaction, TransactionType};
use saito_core::core::consensus::wallet::Wallet;
use saito_core::core::msg::api_message::ApiMessage;
use saito_core::core::msg::block_request::BlockchainRequest;
use saito_core::core::msg::ghost_chain_sync::GhostChainSync;
use saito_core::core::msg::handshake::{HandshakeChallenge, HandshakeResponse};
use saito_core::core::msg::message::Message;
use saito_core::core::util::crypto::sign;
use saito_core::core::util::serialize::Serialize as SaitoSerialize;
use serde::{Deserialize, Serialize};
use serde_json::Value;

use crate::framework::*;
use crate::l2::*;
use crate::rng::{mix, Rng};
use crate::simio::{BLOCK_DIR, WALLET_PATH};
use crate::util::{guarded, Digest};
use crate::world::*;

pub struct C10;

pub const BOUNDARY: &[u32] = &[0, 1, 2, 254, 255, 256, 65_535, 65_536, 0x7fff_ffff, 0xffff_fffe, 0xffff_ffff];

#[derive(Clone, Debug, Serialize, Deserialize)]
pub struct Plan {
    pub seed: u64,
    /// index into the encoding catalogue
    pub enc: usize,
    /// "truncate" | "u32-window" | "bitflip" | "random" | "true-count+-1"
    pub family: String,
    pub chunk: u64,
}

pub const N_ENC: usize = 26;
pub const FAMILIES: &[&str] = &["truncate", "u32-window", "bitflip", "random"];

fn gen(seed: u64, index: u64, tier: Tier) -> Plan {
    let rs = derive_run_seed(seed, "C10", index);
    let enc = (index % N_ENC as u64) as usize;
    let k = index / N_ENC as u64;
    let fam = FAMILIES[(k % FAMILIES.len() as u64) as usize];
    let _ = tier;
    Plan { seed: rs, enc, family: fam.to_string(), chunk: k / FAMILIES.len() as u64 }
}

pub struct Enc {
    pub name: &'static str,
    /// "msg" (full Message incl. tag), "block", "tx", "slip", "hop", "wallet", "blockfile", "gt", "services", "ghost", "api", "breq", "hresp", "hchal"
    pub kind: &'static str,
    pub bytes: Vec<u8>,
}

/// the catalogue of valid encodings, produced by a small real history
pub fn catalogue(seed: u64) -> Option<(World, Vec<Enc>, Vec<usize>)> {
    let mut w = World::new(seed, Params::default());
    let mut rng = Rng::new(mix(seed, 10));
    let mut cur = 0;
    let mut chain = vec![0usize];
    for i in 0..4 {
        cur = w.honest_child(cur, &mut rng, 1 + i % 3, (w.recs[cur].id + 1) % 2 == 0, 2300, "c").ok()?;
        chain.push(cur);
    }
    let blk = w.block(cur);
    let blk2 = w.block(chain[2]);
    let ledger = w.ledger_at(cur);
    let (mut tx, _) = w.payment(&ledger, 1, 2, 0, 500, w.recs[cur].ts + 100)?;
    tx.data = vec![7u8; 40];
    tx.sign(&w.keys[1].sk.clone());
    let mut tx_path = tx.clone();
    tx_path.add_hop(&w.keys[1].sk.clone(), &w.keys[1].pk.clone(), &w.keys[0].pk.clone());
    let gt = mine_gt(w.recs[cur].hash, 0, &w.keys[0], 1);
    let gttx = gt_tx(gt.clone(), &w.keys[0]);
    let version = saito_core::core::process::version::read_pkg_version();
    let hresp = HandshakeResponse {
        public_key: w.keys[2].pk,
        signature: sign(&[1; 32], &w.keys[2].sk),
        is_lite: false,
        block_fetch_url: "http://node.example:12101".to_string(),
        challenge: [3; 32],
        services: vec![PeerService { service: "archive".into(), domain: "saito".into(), name: "x".into() }],
        wallet_version: version,
        core_version: version,
    };
    let ghost = GhostChainSync {
        start: w.recs[0].hash,
        prehashes: vec![[1; 32], [2; 32], [3; 32]],
        previous_block_hashes: vec![[4; 32], [5; 32], [6; 32]],
        block_ids: vec![2, 3, 4],
        block_ts: vec![10, 20, 30],
        txs: vec![true, false, true],
        gts: vec![false, true, false],
    };
    let api = ApiMessage { msg_index: 7, data: vec![1, 2, 3, 4, 5, 6, 7, 8, 9] };
    let services = vec![
        PeerService { service: "a".into(), domain: "b".into(), name: "c".into() },
        PeerService { service: "dd".into(), domain: "".into(), name: "eee".into() },
    ];
    let breq = {
        let mut b = vec![];
        b.extend_from_slice(&5u64.to_be_bytes());
        b.extend_from_slice(&w.recs[cur].hash);
        b.extend_from_slice(&[9u8; 32]);
        BlockchainRequest::deserialize(&b).ok()?
    };
    let mut wallet = Wallet::new(w.keys[1].sk, w.keys[1].pk);
    let wallet_bytes = wallet.serialize_for_disk();
    let _ = &mut wallet;
    let m = |x: Message| x.serialize();
    let encs = vec![
        Enc { name: "msg-handshake-challenge", kind: "msg", bytes: m(Message::HandshakeChallenge(HandshakeChallenge { challenge: [5; 32] })) },
        Enc { name: "msg-handshake-response", kind: "msg", bytes: m(Message::HandshakeResponse(hresp)) },
        Enc { name: "msg-block", kind: "msg", bytes: {
            let mut v = vec![3u8];
            v.extend(blk2.serialize_for_net(BlockType::Full));
            v
        } },
        Enc { name: "msg-transaction", kind: "msg", bytes: m(Message::Transaction(tx.clone())) },
        Enc { name: "msg-transaction-with-path", kind: "msg", bytes: m(Message::Transaction(tx_path.clone())) },
        Enc { name: "msg-transaction-golden-ticket", kind: "msg", bytes: m(Message::Transaction(gttx.clone())) },
        Enc { name: "msg-blockchain-request", kind: "msg", bytes: m(Message::BlockchainRequest(breq)) },
        Enc { name: "msg-block-header-hash", kind: "msg", bytes: m(Message::BlockHeaderHash(w.recs[cur].hash, w.recs[cur].id)) },
        Enc { name: "msg-ping", kind: "msg", bytes: m(Message::Ping()) },
        Enc { name: "msg-spv-chain", kind: "msg", bytes: m(Message::SPVChain()) },
        Enc { name: "msg-services", kind: "msg", bytes: m(Message::Services(services)) },
        Enc { name: "msg-ghost-chain", kind: "msg", bytes: m(Message::GhostChain(ghost)) },
        Enc { name: "msg-ghost-chain-request", kind: "msg", bytes: m(Message::GhostChainRequest(4, w.recs[cur].hash, [2; 32])) },
        Enc { name: "msg-application", kind: "msg", bytes: m(Message::ApplicationMessage(ApiMessage { msg_index: 7, data: api.data.clone() })) },
        Enc { name: "msg-result", kind: "msg", bytes: m(Message::Result(ApiMessage { msg_index: 8, data: api.data.clone() })) },
        Enc { name: "msg-error", kind: "msg", bytes: m(Message::Error(ApiMessage { msg_index: 9, data: api.data.clone() })) },
        Enc { name: "msg-key-list-update", kind: "msg", bytes: m(Message::KeyListUpdate(vec![w.keys[1].pk, w.keys[2].pk])) },
        Enc { name: "block-full", kind: "block", bytes: blk.serialize_for_net(BlockType::Full) },
        Enc { name: "block-header", kind: "block", bytes: blk.serialize_for_net(BlockType::Header) },
        Enc { name: "transaction", kind: "tx", bytes: tx_path.serialize_for_net() },
        Enc { name: "slip", kind: "slip", bytes: tx.to[0].serialize_for_net() },
        Enc { name: "hop", kind: "hop", bytes: tx_path.path[0].serialize_for_net() },
        Enc { name: "golden-ticket-payload", kind: "gt", bytes: gt.serialize_for_net() },
        Enc { name: "wallet-file", kind: "wallet", bytes: wallet_bytes },
        Enc { name: "block-file", kind: "blockfile", bytes: blk2.serialize_for_net(BlockType::Full) },
        Enc { name: "fetched-block-buffer", kind: "fetched", bytes: w.recs[chain[3]].bytes.clone() },
    ];
    assert_eq!(encs.len(), N_ENC);
    Some((w, encs, chain))
}

/// direct decoder call; returns a label of what was decoded
fn decode_direct(kind: &str, bytes: &[u8]) {
    match kind {
        "msg" => {
            let _ = Message::deserialize(bytes.to_vec());
        }
        "block" | "blockfile" | "fetched" => {
            if let Ok(mut b) = Block::deserialize_from_net(bytes) {
                let _ = b.generate();
            }
        }
        "tx" => {
            let _ = Transaction::deserialize_from_net(bytes);
        }
        "slip" => {
            let _ = Slip::deserialize_from_net(&bytes.to_vec());
        }
        "hop" => {
            let _ = Hop::deserialize_from_net(&bytes.to_vec());
        }
        "gt" => {
            let _ = GoldenTicket::deserialize_from_net(&bytes.to_vec());
        }
        "wallet" => {
            let mut wlt = Wallet::new([1; 32], [2; 33]);
            wlt.deserialize_from_disk(bytes);
        }
        _ => {}
    }
}

fn variants(plan: &Plan, valid: &[u8]) -> Vec<(String, Vec<u8>)> {
    let mut out = vec![];
    let len = valid.len();
    match plan.family.as_str() {
        "truncate" => {
            // every length 0..len, in chunks of 600
            let from = (plan.chunk as usize) * 600;
            for l in from..(from + 600).min(len) {
                out.push((format!("truncate@{}", l), valid[..l].to_vec()));
            }
            if plan.chunk == 0 {
                // and some extension
                let mut v = valid.to_vec();
                v.extend_from_slice(&[0xAB; 7]);
                out.push(("extend+7".to_string(), v));
                // buffers of every short length filled with one byte value (what a torn, zero-filled write
                // leaves behind; all-ones is no valid scalar, length or flag either), with and without the
                // leading tag of the valid encoding
                for fill in [0x00u8, 0xff] {
                    for l in 0..=(len + 8).min(160) {
                        out.push((format!("fill{:02x}@{}", fill, l), vec![fill; l]));
                        if l > 0 {
                            let mut t = vec![fill; l];
                            t[0] = valid[0];
                            out.push((format!("fill{:02x}+tag@{}", fill, l), t));
                        }
                    }
                }
            }
        }
        "u32-window" => {
            // every offset (first 400 bytes + last 16), every boundary value, chunks of 60 offsets
            let mut offs: Vec<usize> = (0..len.saturating_sub(3).min(400)).collect();
            for o in len.saturating_sub(20)..len.saturating_sub(3) {
                if !offs.contains(&o) {
                    offs.push(o);
                }
            }
            let from = (plan.chunk as usize) * 60;
            for o in offs.into_iter().skip(from).take(60) {
                for b in BOUNDARY {
                    let mut v = valid.to_vec();
                    v[o..o + 4].copy_from_slice(&b.to_be_bytes());
                    if v != valid {
                        out.push((format!("u32@{}={}", o, b), v));
                    }
                }
                // true value +-1
                let t = u32::from_be_bytes(valid[o..o + 4].try_into().unwrap());
                for d in [t.wrapping_add(1), t.wrapping_sub(1)] {
                    let mut v = valid.to_vec();
                    v[o..o + 4].copy_from_slice(&d.to_be_bytes());
                    out.push((format!("u32@{}~{}", o, d), v));
                }
            }
        }
        "bitflip" => {
            let mut rng = Rng::new(mix(plan.seed, plan.chunk));
            for _ in 0..300 {
                if len == 0 {
                    break;
                }
                let mut v = valid.to_vec();
                let k = 1 + rng.below(3);
                for _ in 0..k {
                    let p = rng.usize_below(len);
                    v[p] ^= 1 << rng.below(8);
                }
                out.push(("bitflip".to_string(), v));
            }
        }
        _ => {
            let mut rng = Rng::new(mix(plan.seed, 77 + plan.chunk));
            for _ in 0..300 {
                let l = match rng.below(4) {
                    0 => rng.below(8),
                    1 => rng.below(130),
                    2 => rng.below(600),
                    _ => len as u64 + rng.below(5),
                } as usize;
                let mut v: Vec<u8> = (0..l).map(|_| rng.below(256) as u8).collect();
                // keep a plausible tag / header so that the deeper decoder is reached
                if !v.is_empty() && !valid.is_empty() && rng.chance(2, 3) {
                    v[0] = valid[0];
                }
                out.push(("random".to_string(), v));
            }
        }
    }
    out
}

struct Harness {
    sim: Sim,
    node: usize,
    conn: usize,
    peer_idx: u64,
    cfg: crate::simcfg::SimConfig,
    key: Key,
    genesis: Vec<Vec<u8>>,
    ext_key: Key,
}

impl Harness {
    fn new(w: &World, chain: &[usize], seed: u64) -> Harness {
        let start = w.recs.iter().map(|b| b.ts).max().unwrap() + 10_000;
        let mut sim = Sim::new(mix(seed, 101), start);
        let opts = NodeOpts::default();
        let cfg = w.cfg.clone();
        let node = sim.add_node(&w.keys[1].clone(), &cfg, &opts);
        let genesis: Vec<Vec<u8>> = chain[..3].iter().map(|i| w.recs[*i].bytes.clone()).collect();
        sim.preload(node, &genesis);
        sim.init_node(node, false);
        let ext_key = derive_key(seed, 50);
        let mut h = Harness { sim, node, conn: 0, peer_idx: 0, cfg, key: w.keys[1].clone(), genesis, ext_key };
        h.connect();
        h
    }
    fn connect(&mut self) {
        let (c, idx) = self.sim.connect_external(0, self.node);
        self.sim.settle_without_fetches(2000);
        let version = saito_core::core::process::version::read_pkg_version();
        for (_c, m) in self.sim.take_ext_inbox(0) {
            if let Ok(Message::HandshakeChallenge(ch)) = Message::deserialize(m) {
                let resp = HandshakeResponse {
                    public_key: self.ext_key.pk,
                    signature: sign(&ch.challenge, &self.ext_key.sk),
                    is_lite: false,
                    block_fetch_url: "http://ext0".to_string(),
                    challenge: [1; 32],
                    services: vec![],
                    wallet_version: version,
                    core_version: version,
                };
                self.sim.ext_send(c, Message::HandshakeResponse(resp).serialize());
            }
        }
        self.sim.settle_without_fetches(2000);
        let _ = self.sim.take_ext_inbox(0);
        self.conn = c;
        self.peer_idx = idx;
    }
    fn revive(&mut self) {
        let opts = NodeOpts::default();
        let disk = std::sync::Arc::new(std::sync::Mutex::new(crate::simio::DiskState::default()));
        self.sim.restart_node(self.node, &self.cfg, &opts, Some(disk));
        self.sim.panics.clear();
        let g = self.genesis.clone();
        self.sim.preload(self.node, &g);
        self.sim.init_node(self.node, false);
        let _ = &self.key;
        self.connect();
    }
}

impl Scenario for C10 {
    fn id(&self) -> &'static str {
        "C10"
    }
    fn meta(&self) -> Meta {
        Meta {
            level: "fault_enumeration",
            rule: "catalogue of 26 valid encodings produced by a real history (all 15 message tags incl. three Transaction shapes and a Block-tagged message, full and header block, transaction, slip, hop, golden-ticket payload, wallet file, block file, fetched block buffer). Run i takes encoding i mod 26 and one corruption family: ALL truncation lengths (chunks of 600) plus every length up to 160 filled with 0x00 / 0xff (with and without the leading tag), every 4-byte window of the first 400 and last 20 bytes overwritten with 11 boundary values and true value +-1 (chunks of 60 offsets), 300 seeded 1-3 bit flips, 300 seeded random strings keeping the leading tag. Each variant is (a) passed to the decoder directly under catch_unwind with a per-thread counting allocator: no panic, peak allocation <= 16*len + 1 MiB; (b) delivered through the real entry point of a live node: IncomingNetworkMessage from an authenticated peer (then routing -> verification -> consensus to quiescence), BlockFetched buffer, block file / wallet file present at restart: no handler panics. exhaustive per encoding for truncations once chunk indices cover its length. distinct_nontrivial = distinct (encoding, corruption label) delivered.",
            real: &["Message::deserialize and all per-tag decoders", "Block/Transaction/Slip/Hop::deserialize_from_net", "GoldenTicket::deserialize_from_net", "Wallet::deserialize_from_disk", "RoutingThread/VerificationThread/ConsensusThread handlers", "ConsensusThread::on_init + Storage::load_blocks_from_disk"],
            stubs: &["SimNet scripted peer", "SimIo disk", "counting global allocator in simctl"],
            assumptions: &["'random strings' are sampled, not enumerated", "allocation bound is applied to direct decoder calls only (handlers legitimately allocate state)"],
        }
    }
    fn budget(&self, tier: Tier) -> Budget {
        match tier {
            Tier::Quick => Budget { max_runs: 26 * 4 * 8, wall_s: 50 },
            Tier::Thorough => Budget { max_runs: 26 * 4 * 400, wall_s: 480 },
        }
    }
    fn exhaustive_prefix(&self, _tier: Tier) -> u64 {
        // chunks 0..7 of every family for every encoding (covers all truncations of encodings <= 4800 bytes
        // and all u32 windows: 420 offsets / 60 = 7 chunks)
        26 * 4 * 8
    }
    fn generate(&self, seed: u64, index: u64, tier: Tier) -> Value {
        serde_json::to_value(gen(seed, index, tier)).unwrap()
    }
    fn execute(&self, plan: &Value) -> RunResult {
        let plan: Plan = serde_json::from_value(plan.clone()).expect("plan");
        let mut r = RunResult::default();
        // the catalogue does not depend on the run (fixed seed) so that encodings are stable
        let (w, encs, chain) = match guarded(|| catalogue(4242)) {
            Ok(Some(x)) => x,
            _ => {
                r.discarded = true;
                return r;
            }
        };
        let enc = &encs[plan.enc % encs.len()];
        let vars = variants(&plan, &enc.bytes);
        if vars.is_empty() {
            r.discarded = true;
            r.probe("empty_chunk");
            return r;
        }
        let mut trace = Digest::new();
        let mut h = Harness::new(&w, &chain, plan.seed);
        let mut delivered = 0u64;
        for (label, v) in vars.iter() {
            trace.str(label);
            // (a) direct decoder
            let start = crate::alloc::window_start();
            let res = guarded(|| decode_direct(enc.kind, v));
            let peak = crate::alloc::window_peak(start);
            match res {
                Err(p) => {
                    let fam = label.split('@').next().unwrap_or("x").to_string();
                    r.violate(
                        format!("C10|panic|decoder|{}|{}", enc.kind, p.site()),
                        format!("{} [{}] ({} bytes): decoder panicked: {} ({}:{}); first case of family {}", enc.name, label, v.len(), p.msg.chars().take(120).collect::<String>(), p.file, p.line, fam),
                    );
                }
                Ok(()) => {
                    let bound = 16 * v.len() + (1 << 20);
                    if peak > bound {
                        r.violate(
                            format!("C10|alloc|decoder|{}", enc.kind),
                            format!("{} [{}] ({} bytes): decoder allocated {} bytes at peak (bound {})", enc.name, label, v.len(), peak, bound),
                        );
                    }
                }
            }
            // (b) real entry point
            match enc.kind {
                "msg" => {
                    h.sim.advance(3);
                    h.sim.ext_send(h.conn, v.clone());
                    h.sim.settle_without_fetches(5000);
                    h.sim.fetches.clear();
                    let _ = h.sim.take_ext_inbox(0);
                    delivered += 1;
                }
                "fetched" | "block" => {
                    // a fetch answered with this buffer
                    let hash = if v.len() >= 32 { saito_core::core::util::crypto::hash(v) } else { [9; 32] };
                    h.sim.nodes[h.node].net_in.push_back(saito_core::core::io::network_event::NetworkEvent::BlockFetched {
                        block_hash: hash,
                        block_id: 5,
                        peer_index: h.peer_idx,
                        buffer: v.clone(),
                    });
                    h.sim.settle_without_fetches(5000);
                    h.sim.fetches.clear();
                    delivered += 1;
                }
                "blockfile" | "wallet" => {
                    // the file is present when the node starts
                    let opts = NodeOpts::default();
                    let disk = std::sync::Arc::new(std::sync::Mutex::new(crate::simio::DiskState::default()));
                    {
                        let mut d = disk.lock().unwrap();
                        // genesis file first, then the corrupted one
                        let g = w.block(0);
                        d.apply(&crate::simio::JournalOp::Write { path: format!("{}{}", BLOCK_DIR, g.get_file_name()), data: w.recs[0].bytes.clone() });
                        if enc.kind == "wallet" {
                            d.apply(&crate::simio::JournalOp::Write { path: WALLET_PATH.to_string(), data: v.clone() });
                        } else {
                            let b = w.block(chain[2]);
                            d.apply(&crate::simio::JournalOp::Write { path: format!("{}{}", BLOCK_DIR, b.get_file_name()), data: v.clone() });
                        }
                    }
                    let cfg = h.cfg.clone();
                    let r2 = guarded(|| {
                        let mut sim2 = Sim::new(1, h.sim.now());
                        let key = h.key.clone();
                        let id = sim2.nodes.len();
                        let n = FullNode::new(id, &key, &cfg, disk.clone(), sim2.clock.clone(), &opts);
                        sim2.nodes.push(n);
                        sim2.init_node(0, false);
                        sim2.panics.first().map(|(_, w, p)| (*w, p.clone()))
                    });
                    let pan = match r2 {
                        Ok(None) => None,
                        Ok(Some((what, p))) => Some((what, p)),
                        Err(p) => Some(("startup", p)),
                    };
                    if let Some((what, p)) = pan {
                        r.violate(
                            format!("C10|panic|restart|{}|{}", enc.kind, p.site()),
                            format!("{} [{}] present at restart: {} panicked: {} ({}:{})", enc.name, label, what, p.msg.chars().take(120).collect::<String>(), p.file, p.line),
                        );
                    }
                    delivered += 1;
                }
                _ => {}
            }
            if let Some((_, what, p)) = h.sim.panics.first().cloned() {
                r.violate(
                    format!("C10|panic|handler|{}|{}|{}", enc.kind, what, p.site()),
                    format!("{} [{}] ({} bytes) delivered through the node: {} panicked: {} ({}:{})", enc.name, label, v.len(), what, p.msg.chars().take(120).collect::<String>(), p.file, p.line),
                );
                h.revive();
            }
            let mut d = Digest::new();
            d.str(enc.name).str(label);
            r.nontrivial.push(d.get());
        }
        r.fault(&format!("corruption_{}", plan.family), vars.len() as u64);
        r.probe_n("delivered_through_entry_point", delivered);
        r.steps = vars.len() as u64;
        trace.u64(r.violations.len() as u64);
        r.state_hash = trace.get();
        r.trace_hash = trace.get();
        r
    }
    fn shrink(&self, _plan: &Value) -> Vec<Value> {
        vec![]
    }
}
