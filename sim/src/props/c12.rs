//! C12 — restart rebuilds the same ledger; a crash at any storage step is survivable.
//!
//! A history (producer chain over a small genesis period: pruning, purge, rebroadcast; optional
//! side fork) is delivered to a real full node whose simulated disk journals every write/remove.
//! Every journal prefix x tear class of the next operation is a crash image; a brand-new node
//! is started on each image through the real start-up path (Wallet::load, ConsensusThread::on_init).

use std::sync::{Arc, Mutex};

use serde::{Deserialize, Serialize};
use serde_json::Value;

use crate::framework::*;
use crate::l2::*;
use crate::rng::{mix, Rng};
use crate::simio::{DiskState, JournalOp, BLOCK_DIR};
use crate::util::{block_on, Digest};
use crate::world::*;

pub struct C12;

pub const TEARS: &[&str] = &["absent", "empty", "header-cut", "half", "minus-one", "complete"];

#[derive(Clone, Debug, Serialize, Deserialize)]
pub struct Plan {
    pub seed: u64,
    pub gp: u64,
    pub n_blocks: usize,
    pub fork: bool,
    pub delete_old_blocks: bool,
    pub prune_after: u64,
    /// images [chunk*per, chunk*per+per) of the enumeration
    pub chunk: u64,
    pub per: u64,
    /// with `fork`: the side block arrives BEFORE the main chain's block of the same height, so the node
    /// first follows the side branch and the main chain wins by a reorganisation (its block at that height
    /// was received while it was not the longest chain)
    #[serde(default)]
    pub fork_first: bool,
    /// at the end of the history the node is given a late competing block for the height it has just purged
    /// (tip - 2 x genesis period): too old to be kept, so no file of it may be left to be read back as the
    /// oldest block at the next start-up
    #[serde(default)]
    pub stray_at_horizon: bool,
    /// blocks 6-9 s apart instead of 2.1-2.6 s (heartbeat 1 s): the burn fee decays steeply from block to block,
    /// so an old block outweighs the blocks that follow it
    #[serde(default)]
    pub slow_blocks: bool,
    /// with `fork`: the side block is a sibling of the *tip* (built on block n_blocks-1, delivered after the tip),
    /// so that the newest block file need not belong to the longest chain
    #[serde(default)]
    pub fork_at_tip: bool,
}

fn gen(seed: u64, index: u64, tier: Tier) -> Plan {
    // consecutive indices walk through the images of one history
    let per = 24u64;
    let hist = index / 12;
    let chunk = index % 12;
    let rs = derive_run_seed(seed, "C12", hist);
    let mut rng = Rng::new(rs);
    let gp = rng.range(3, 6);
    let max = if tier == Tier::Quick { 16 } else { 40 };
    Plan {
        seed: rs,
        gp,
        n_blocks: rng.range(gp + 2, max) as usize,
        fork: rng.chance(1, 2),
        delete_old_blocks: rng.chance(3, 4),
        prune_after: *rng.pick(&[2u64, 4, 8]),
        chunk,
        per,
        fork_first: rng.chance(1, 2),
        stray_at_horizon: rng.chance(1, 3),
        slow_blocks: rng.chance(1, 3),
        fork_at_tip: rng.chance(1, 3),
    }
}

fn apply_torn(d: &mut DiskState, op: &JournalOp, tear: &str) {
    match op {
        JournalOp::Remove { .. } => {
            if tear == "complete" {
                d.apply(op);
            }
        }
        JournalOp::Write { path, data } => {
            let cut = match tear {
                "absent" => return,
                "empty" => 0,
                "header-cut" => data.len().min(200),
                "half" => data.len() / 2,
                "minus-one" => data.len().saturating_sub(1),
                _ => data.len(),
            };
            d.apply(&JournalOp::Write { path: path.clone(), data: data[..cut].to_vec() });
        }
    }
}

impl Scenario for C12 {
    fn id(&self) -> &'static str {
        "C12"
    }
    fn meta(&self) -> Meta {
        Meta {
            level: "fault_enumeration",
            rule: "history = producer chain over genesis period 3..6 (rebroadcasts, pruning at depth 2/4/8, purge at 2x genesis period), optionally a side block that either stays a stored side branch or arrives first (so that the main chain later wins by a reorganisation through a block received while it was not the longest), delivered block by block to a real full node (consensus path: mempool queue -> add_blocks_from_mempool -> block file + wallet file writes, purge removes); the simulated disk journals every operation. Crash images = every journal prefix k x tear class of operation k in {absent, created-empty, cut inside the header, half, all-but-last-byte, complete} (process dies, page cache survives: completed writes are durable). Twelve consecutive run indices enumerate the images of one history in chunks of 24. For each image a brand-new node runs the real start-up (Wallet::load, on_init with delete_old_blocks as drawn). Oracle: start-up does not panic; the restarted tip is a block the node had been given before the crash point; its in-window spendable set equals the reference ledger at that tip and the conservation equation holds; after a clean shutdown (full journal) the tip equals the pre-shutdown tip and the node's miner has been handed that tip (in a third of the fork histories the side block is a sibling of the tip itself, so that the newest block file is not on the longest chain); the node then adopts the next three blocks of the chain. The start-up's own storage operations are journalled as well: for every image one of them (seeded) is the point of a second crash with a seeded tear class, and a third start-up must again come up without panic on a known tip. A third of the histories end with a late competing block for the height the node has just purged (tip - 2 x genesis period). For the clean image of a history with a side block: after the restart the stored side branch grows by two blocks and overtakes the main chain (a reorganisation onto a block that was not on the longest chain when the node started), then a clean shutdown and start-up must come back on the side branch's tip. After the recovery and the three further blocks a clean shutdown and another start-up must come up on exactly that extended tip. distinct_nontrivial = distinct (history, prefix, tear class) restarted.",
            real: &["ConsensusThread::on_init", "Storage::load_block_name_list/load_blocks_from_disk/write_block_to_disk/delete_block_from_disk", "Wallet::load/save", "Blockchain::add_blocks_from_mempool/add_block/delete_blocks/prune", "Block::deserialize_from_net/generate"],
            stubs: &["SimDisk journal + torn-write images (write_value = truncate+write, no fsync/rename, as RustIOHandler)", "SimConfig", "no network"],
            assumptions: &["crash model = process death (no lost un-synced writes); the power-loss model is not demanded by the property", "write errors are not injected (write_block_to_disk panics by design)"],
        }
    }
    fn budget(&self, tier: Tier) -> Budget {
        match tier {
            Tier::Quick => Budget { max_runs: 1_200, wall_s: 50 },
            Tier::Thorough => Budget { max_runs: 60_000, wall_s: 480 },
        }
    }
    fn generate(&self, seed: u64, index: u64, tier: Tier) -> Value {
        serde_json::to_value(gen(seed, index, tier)).unwrap()
    }
    fn execute(&self, plan: &Value) -> RunResult {
        let plan: Plan = serde_json::from_value(plan.clone()).expect("plan");
        let mut r = RunResult::default();
        let params = Params { genesis_period: plan.gp, heartbeat: 1000, n_users: 3, slips_per_user: 4, base_amount: 1_000_000 };
        let mut rng = Rng::new(mix(plan.seed, 12));
        let mut c = match crate::util::guarded(|| Chain::new(plan.seed, params.clone(), 8)) {
            Ok(Ok(c)) => c,
            _ => {
                r.discarded = true;
                return r;
            }
        };
        // producer history (+3 spare blocks for the liveness clause)
        let mut ledgers: Vec<RefLedger> = vec![c.ledger.clone()];
        let total = plan.n_blocks + 3;
        let built = crate::util::guarded(|| -> Result<(), String> {
            for i in 0..total {
                let mut used = vec![];
                let mut txs = vec![];
                for _ in 0..(1 + i % 3) {
                    let user = 1 + rng.usize_below(3);
                    if let Some((t, inp)) = c.payment(user, 1 + rng.usize_below(3), rng.usize_below(32), rng.below(3000), 0, &used) {
                        used.push(inp.key());
                        txs.push(t);
                    }
                }
                if txs.is_empty() {
                    let tag = c.tag();
                    let ts = c.tip_rec().ts + tag;
                    txs.push(make_tx(&c.keys[1].clone(), &[], &[(c.keys[1].pk, 0)], ts, &tag.to_le_bytes()));
                }
                let tip_hash = c.tip_rec().hash;
                let gt = i % 2 == 1 || !c.node.bc.is_golden_ticket_count_valid(tip_hash, i % 2 == 1, false, false);
                let dt = if plan.slow_blocks { 6000 + rng.below(3000) } else { 2100 + rng.below(500) };
                c.extend(txs, gt, dt)?;
                ledgers.push(c.ledger.clone());
            }
            Ok(())
        });
        if !matches!(built, Ok(Ok(()))) {
            r.discarded = true;
            r.probe("producer_refused_own_block");
            return r;
        }
        let genesis_supply = c.genesis_supply;
        // side fork: two blocks off block n_blocks-2, built by a second producer
        let mut side: Vec<BlockRec> = vec![];
        if plan.fork && plan.n_blocks >= 4 {
            let fork_index = if plan.fork_at_tip { plan.n_blocks - 1 } else { plan.n_blocks - 2 };
            if let Ok(Ok(mut f)) = crate::util::guarded(|| c.fork_at(fork_index)) {
                // (the first one is part of the history; the other two are kept for the stage in which the side
                // branch overtakes the main chain after a restart)
                for k in 0..3 {
                    let tag = f.tag();
                    let ts = f.tip_rec().ts + tag;
                    let tx = make_tx(&f.keys[2].clone(), &[], &[(f.keys[2].pk, 0)], ts, &tag.to_le_bytes());
                    let tip_hash = f.tip_rec().hash;
                    let gt = !f.node.bc.is_golden_ticket_count_valid(tip_hash, false, false, false) || k == 0;
                    if let Ok(Ok(i)) = crate::util::guarded(|| f.extend(vec![tx], gt, 2150)) {
                        side.push(f.recs[i].clone());
                    }
                }
            }
        }
        let side_more: Vec<BlockRec> = if side.len() == 3 { side.split_off(1) } else { vec![] };
        side.truncate(1);
        // a late competing block for height n_blocks+1 - 2*gp (ids are index + 1), built on the main chain's block below it
        let mut stray: Option<BlockRec> = None;
        let tip_id = plan.n_blocks as u64 + 1;
        if plan.stray_at_horizon && tip_id > 2 * plan.gp + 2 {
            let h = tip_id - 2 * plan.gp; // id of the stray
            if let Ok(Ok(mut f)) = crate::util::guarded(|| c.fork_at((h - 2) as usize)) {
                let tag = f.tag();
                let ts = f.tip_rec().ts + tag;
                let tx = make_tx(&f.keys[3].clone(), &[], &[(f.keys[3].pk, 0)], ts, &tag.to_le_bytes());
                let tip_hash = f.tip_rec().hash;
                let gt = !f.node.bc.is_golden_ticket_count_valid(tip_hash, false, false, false);
                if let Ok(Ok(i)) = crate::util::guarded(|| f.extend(vec![tx], gt, 2050)) {
                    stray = Some(f.recs[i].clone());
                }
            }
        }
        // deliver to the node under test with the journal on
        let mut cfg = c.cfg.clone();
        cfg.consensus.prune_after_blocks = plan.prune_after;
        let start = c.tip_rec().ts + 60_000;
        let mut sim = Sim::new(mix(plan.seed, 121), start);
        let mut opts = NodeOpts::default();
        opts.delete_old_blocks = plan.delete_old_blocks;
        let n = sim.add_node(&c.keys[2].clone(), &cfg, &opts);
        sim.nodes[n].disk.lock().unwrap().record_journal = true;
        sim.init_node(n, false);
        // delivery order: main chain 0..n_blocks, side blocks after block n_blocks-1 arrived
        let mut deliveries: Vec<BlockRec> = vec![];
        for (i, rec) in c.recs[..=plan.n_blocks].iter().enumerate() {
            deliveries.push(rec.clone());
            if plan.fork_at_tip {
                if i == plan.n_blocks {
                    for s in &side {
                        deliveries.push(s.clone());
                    }
                }
                continue;
            }
            if !plan.fork_first && i == plan.n_blocks - 1 {
                for s in &side {
                    deliveries.push(s.clone());
                }
            }
            if plan.fork_first && i + 2 == plan.n_blocks {
                // the side block is a child of block n_blocks-2 and arrives right after it
                for s in &side {
                    deliveries.push(s.clone());
                }
            }
        }
        if let Some(st) = &stray {
            deliveries.push(st.clone());
            r.fault("late_block_at_the_purge_horizon", 1);
        }
        // after each delivery: journal length, tip, set of known blocks
        let mut marks: Vec<(usize, [u8; 32], Vec<[u8; 32]>)> = vec![];
        let mut known: Vec<[u8; 32]> = vec![];
        for rec in &deliveries {
            known.push(rec.hash);
            if !sim.preload(n, &[rec.bytes.clone()]) {
                break;
            }
            let jl = sim.nodes[n].disk.lock().unwrap().journal.len();
            marks.push((jl, sim.nodes[n].tip().1, known.clone()));
        }
        if let Some((_, what, p)) = sim.panics.first() {
            r.violate(format!("C12|panic|history|{}|{}", what, p.site()), format!("while building the history: {} ({}:{})", p.msg, p.file, p.line));
            return r;
        }
        let final_tip = sim.nodes[n].tip();
        if final_tip.1 != c.recs[plan.n_blocks].hash {
            r.discarded = true;
            r.probe("history_not_adopted");
            return r;
        }
        let journal: Vec<JournalOp> = sim.nodes[n].disk.lock().unwrap().journal.clone();
        // enumerate images
        let mut images: Vec<(usize, &str)> = vec![];
        for k in 0..journal.len() {
            for t in TEARS {
                if matches!(journal[k], JournalOp::Remove { .. }) && !(*t == "absent" || *t == "complete") {
                    continue;
                }
                if *t == "complete" && k + 1 < journal.len() {
                    continue; // same as (k+1, absent)
                }
                images.push((k, t));
            }
        }
        let from = (plan.chunk * plan.per) as usize;
        let mut trace = Digest::new();
        let rec_of = |h: &[u8; 32]| -> Option<(usize, bool)> {
            if let Some(i) = c.recs.iter().position(|r| &r.hash == h) {
                return Some((i, true));
            }
            if stray.as_ref().map(|s| &s.hash) == Some(h) {
                return Some((0, false));
            }
            side.iter().position(|r| &r.hash == h).map(|i| (i, false))
        };
        for (k, tear) in images.iter().skip(from).take(plan.per as usize) {
            let mut d = DiskState::default();
            for op in &journal[..*k] {
                d.apply(op);
            }
            apply_torn(&mut d, &journal[*k], tear);
            let clean = *k + 1 == journal.len() && *tear == "complete";
            // the start-up's own storage operations are journalled too: a second crash can hit them
            d.record_journal = true;
            d.journal.clear();
            let image1_files = d.files.clone();
            let image1_mseq = (d.mseq.clone(), d.seq);
            let disk = Arc::new(Mutex::new(d));
            // which delivery step was in progress when op k was issued
            let step = marks.iter().position(|(jl, _, _)| *jl > *k).unwrap_or(marks.len() - 1);
            let allowed = &marks[step].2;
            r.fault(&format!("crash_tear_{}", tear), 1);
            let mut sim2 = Sim::new(1, start + 1000);
            let key = c.keys[2].clone();
            let node = FullNode::new(0, &key, &cfg, disk.clone(), sim2.clock.clone(), &opts);
            sim2.nodes.push(node);
            // (the clean image starts with its miner enabled, to see what the start-up hands it)
            sim2.init_node(0, clean);
            trace.u64(*k as u64).str(tear);
            let mut dd = Digest::new();
            dd.u64(plan.seed).u64(*k as u64).str(tear);
            r.nontrivial.push(dd.get());
            if let Some((_, what, p)) = sim2.panics.first() {
                let opk = match &journal[*k] {
                    JournalOp::Write { path, .. } => {
                        if path.starts_with(BLOCK_DIR) {
                            "block-file-write"
                        } else if path.contains("wallet") {
                            "wallet-write"
                        } else {
                            "other-write"
                        }
                    }
                    JournalOp::Remove { .. } => "remove",
                };
                r.violate(
                    format!("C12|panic|restart|{}|{}|{}", opk, what, p.site()),
                    format!("crash at journal op {} ({}, {}): restart panicked in {}: {} ({}:{})", k, opk, tear, what, p.msg.chars().take(140).collect::<String>(), p.file, p.line),
                );
                continue;
            }
            let tip = sim2.nodes[0].tip();
            trace.bytes(&tip.1);
            if tip.0 == 0 {
                if step > 0 {
                    r.violate("C12|restart|chain-lost", format!("crash at journal op {} ({}): the restarted node has no chain although {} blocks had been stored", k, tear, step));
                }
                continue;
            }
            if !allowed.contains(&tip.1) {
                r.violate("C12|restart|tip-not-known-before-crash", format!("crash at journal op {} ({}): restarted tip id {} was never given to the node before the crash", k, tear, tip.0));
                continue;
            }
            let main_sibling = if plan.fork_at_tip { plan.n_blocks } else { plan.n_blocks - 1 };
            let main_sibling_ts = c.recs[main_sibling].ts;
            // (the finding needs both: the sibling is read first, and it outweighs the main chain's blocks from its
            // height to the tip; anything else that brings the node back on the sibling is not this finding)
            let main_weight: u128 = c.recs[main_sibling..=plan.n_blocks].iter().map(|b| b.burnfee as u128).sum();
            // (a sibling of the tip itself needs no weight: a chain of the same length never displaces the one
            // that was read first)
            let sibling_outweighs = !side.is_empty() && (plan.fork_at_tip || (side[0].burnfee as u128) > main_weight);
            if std::env::var("VERIF_DEBUG").is_ok() && clean && tip.1 != final_tip.1 {
                eprintln!(
                    "clean restart differs: tip is side[0]: {}, side ts {} main ts {}, side burnfee {:?} main weight {}",
                    !side.is_empty() && tip.1 == side[0].hash,
                    side.first().map(|x| x.ts).unwrap_or(0),
                    main_sibling_ts,
                    side.first().map(|x| x.burnfee),
                    main_weight
                );
            }
            // "read first" = file-name order: <timestamp>-<hash>.sai
            let sibling_read_first = !side.is_empty() && (side[0].ts, side[0].hash) < (main_sibling_ts, c.recs[main_sibling].hash);
            if clean && tip.1 != final_tip.1 && sibling_outweighs && tip.1 == side[0].hash && sibling_read_first {
                // recorded finding: start-up re-runs the fork choice in file-name (timestamp) order. A stored
                // sibling that carries an earlier timestamp than the main chain's block of its height is then seen
                // first, and if its burn fee outweighs the main chain's blocks above the fork point (steeply
                // decaying burn fee: slow main blocks) the longer main chain no longer displaces it
                r.violate(
                    "C12|clean-restart|tip-differs|restart-prefers-heavier-earlier-sibling",
                    format!("after a clean shutdown at id {} the node restarts on the stored sibling at id {} (sibling timestamp {} < main block timestamp {})", final_tip.0, tip.0, side[0].ts, main_sibling_ts),
                );
                continue;
            }
            // the restarted node goes on mining: its miner has been given the tip it came back on
            if clean && tip.1 == final_tip.1 {
                sim2.settle_without_fetches(20_000);
                if sim2.nodes[0].mining.target != tip.1 {
                    r.violate(
                        "C12|clean-restart|miner-not-given-the-tip",
                        format!("after a clean restart at id {} the node's miner has target {} instead of the tip (it will never find the golden ticket the next block may need)", tip.0, crate::util::hex8(&sim2.nodes[0].mining.target)),
                    );
                    continue;
                }
            }
            if clean && tip.1 != final_tip.1 {
                r.violate("C12|clean-restart|tip-differs", format!("after a clean shutdown the node restarts at id {} instead of {}", tip.0, final_tip.0));
                continue;
            }
            // after a clean restart the stored side branch grows past the main chain (a reorganisation onto
            // blocks that were not on the longest chain when the node started), then another clean restart:
            // the node must come back on the side branch's tip
            if clean && !side.is_empty() && side_more.len() == 2 {
                let mut d5 = DiskState::default();
                d5.files = image1_files.clone();
                d5.mseq = image1_mseq.0.clone();
                d5.seq = image1_mseq.1;
                let disk5 = Arc::new(Mutex::new(d5));
                let mut sim5 = Sim::new(1, start + 1500);
                let node5 = FullNode::new(0, &key, &cfg, disk5.clone(), sim5.clock.clone(), &opts);
                sim5.nodes.push(node5);
                sim5.init_node(0, false);
                let had_side = block_on(sim5.nodes[0].blockchain_lock.read()).blocks.contains_key(&side[0].hash);
                if sim5.panics.is_empty() && had_side && sim5.nodes[0].tip().1 == final_tip.1 {
                    let more: Vec<Vec<u8>> = side_more.iter().map(|x| x.bytes.clone()).collect();
                    let _ = sim5.preload(0, &more);
                    let side_tip = side_more[1].hash;
                    if let Some((_, what, p)) = sim5.panics.first() {
                        r.violate(format!("C12|panic|side-branch-after-restart|{}|{}", what, p.site()), format!("after a clean restart the side branch grew: {} ({}:{})", p.msg.chars().take(140).collect::<String>(), p.file, p.line));
                        continue;
                    }
                    if sim5.nodes[0].tip().1 == side_tip {
                        r.fault("side_branch_overtakes_after_restart", 1);
                        let mut sim6 = Sim::new(1, start + 2500);
                        let node6 = FullNode::new(0, &key, &cfg, disk5.clone(), sim6.clock.clone(), &opts);
                        sim6.nodes.push(node6);
                        sim6.init_node(0, false);
                        if let Some((_, what, p)) = sim6.panics.first() {
                            r.violate(format!("C12|panic|restart-after-reorganisation|{}|{}", what, p.site()), format!("clean restart after the side branch had overtaken: {} ({}:{})", p.msg.chars().take(140).collect::<String>(), p.file, p.line));
                            continue;
                        }
                        if sim6.nodes[0].tip().1 != side_tip {
                            r.violate(
                                if plan.delete_old_blocks { "C12|restart-after-reorganisation|tip-differs" } else { "C12|restart-after-reorganisation|tip-differs|stale-files-kept" },
                                format!("clean restart, then the stored side branch overtook the main chain (tip id {}), then another clean restart: the node comes back at id {}", side_more[1].id, sim6.nodes[0].tip().0),
                            );
                            continue;
                        }
                        r.probe("restart_after_reorganisation_ok");
                    } else {
                        r.probe("side_branch_not_adopted");
                    }
                }
            }
            // second crash: the process dies again in the middle of the start-up's own storage operations
            // (stale-file removal, wallet write, ...), then starts once more
            {
                let j2: Vec<JournalOp> = disk.lock().unwrap().journal.clone();
                r.probe_n("startup_storage_ops", j2.len() as u64);
                if std::env::var("VERIF_DEBUG").is_ok() {
                    for (i, op) in j2.iter().enumerate() {
                        match op {
                            JournalOp::Write { path, data } => eprintln!("startup op {} write {} ({} bytes)", i, path, data.len()),
                            JournalOp::Remove { path } => eprintln!("startup op {} remove {}", i, path),
                        }
                    }
                }
                if !j2.is_empty() {
                    let mut pick = Digest::new();
                    pick.u64(plan.seed).u64(*k as u64).str(tear);
                    let h = pick.get();
                    let k2 = (h % j2.len() as u64) as usize;
                    let tear2 = if matches!(j2[k2], JournalOp::Remove { .. }) { if (h >> 20) % 2 == 0 { "absent" } else { "complete" } } else { TEARS[((h >> 20) % TEARS.len() as u64) as usize] };
                    let mut d3 = DiskState::default();
                    d3.files = image1_files.clone();
                    d3.mseq = image1_mseq.0.clone();
                    d3.seq = image1_mseq.1;
                    for op in &j2[..k2] {
                        d3.apply(op);
                    }
                    apply_torn(&mut d3, &j2[k2], tear2);
                    let disk3 = Arc::new(Mutex::new(d3));
                    let mut sim3 = Sim::new(1, start + 2000);
                    let node3 = FullNode::new(0, &key, &cfg, disk3.clone(), sim3.clock.clone(), &opts);
                    sim3.nodes.push(node3);
                    sim3.init_node(0, false);
                    r.fault("second_crash_during_startup", 1);
                    if let Some((_, what, p)) = sim3.panics.first() {
                        r.violate(
                            format!("C12|panic|second-restart|{}|{}", what, p.site()),
                            format!("crash at journal op {} ({}), then a second crash at start-up storage op {} ({}): the next start-up panicked in {}: {} ({}:{})", k, tear, k2, tear2, what, p.msg.chars().take(140).collect::<String>(), p.file, p.line),
                        );
                        continue;
                    }
                    let tip3 = sim3.nodes[0].tip();
                    if tip3.0 == 0 && tip.0 != 0 {
                        r.violate("C12|second-restart|chain-lost", format!("crash at journal op {} ({}) restarted at id {}; after a second crash at start-up storage op {} ({}) the node has no chain", k, tear, tip.0, k2, tear2));
                        continue;
                    }
                    if tip3.0 != 0 && !allowed.contains(&tip3.1) {
                        r.violate("C12|second-restart|tip-not-known-before-crash", format!("after the second crash the tip id {} was never given to the node", tip3.0));
                        continue;
                    }
                }
            }
            // ledger + supply at that tip (main chain tips only: the reference ledger of the side fork is not kept)
            if let Some((i, true)) = rec_of(&tip.1) {
                let bc = block_on(sim2.nodes[0].blockchain_lock.read());
                let want = ledger_supply(&ledgers[i], tip.0, plan.gp);
                let mut got: u128 = 0;
                for (key, v) in bc.utxoset.iter() {
                    if !*v || key[58] == 9 {
                        continue;
                    }
                    let bid = u64::from_be_bytes(key[33..41].try_into().unwrap());
                    if bid < tip.0.saturating_sub(plan.gp) {
                        continue;
                    }
                    got += u64::from_be_bytes(key[50..58].try_into().unwrap()) as u128;
                }
                let t = bc.get_latest_block().unwrap();
                let total = got + t.treasury as u128 + t.graveyard as u128 + t.previous_block_unpaid as u128 + t.total_fees as u128;
                drop(bc);
                if got != want {
                    r.violate(
                        "C12|restart|ledger-differs",
                        format!("crash at journal op {} ({}): restarted at id {} with in-window spendable value {} but the chain up to that block has {}", k, tear, tip.0, got, want),
                    );
                    continue;
                }
                if total != genesis_supply {
                    r.violate("C12|restart|supply-differs", format!("crash at journal op {} ({}): supply {} != issued {} at tip {}", k, tear, total, genesis_supply, tip.0));
                    continue;
                }
                // liveness: the next blocks of the chain are adopted
                let next: Vec<Vec<u8>> = c.recs[i + 1..(i + 4).min(c.recs.len())].iter().map(|r| r.bytes.clone()).collect();
                let want_tip = c.recs[(i + 3).min(c.recs.len() - 1)].hash;
                let ok = sim2.preload(0, &next);
                if let Some((_, what, p)) = sim2.panics.first() {
                    r.violate(format!("C12|panic|after-restart|{}|{}", what, p.site()), format!("crash at journal op {} ({}): extending the restarted chain panicked: {} ({}:{})", k, tear, p.msg.chars().take(140).collect::<String>(), p.file, p.line));
                    continue;
                }
                if !ok || sim2.nodes[0].tip().1 != want_tip {
                    r.violate(
                        "C12|restart|cannot-extend",
                        format!("crash at journal op {} ({}): restarted at id {}, but after being given the next {} blocks the tip is id {}", k, tear, tip.0, next.len(), sim2.nodes[0].tip().0),
                    );
                    continue;
                }
                r.probe("restart_ok_and_extended");
                // clean shutdown after the recovery, then one more start-up from the same disk: whatever the
                // crash left behind (torn files) must not cost the blocks written since
                {
                    let mut sim4 = Sim::new(1, start + 3000);
                    let node4 = FullNode::new(0, &key, &cfg, disk.clone(), sim4.clock.clone(), &opts);
                    sim4.nodes.push(node4);
                    sim4.init_node(0, false);
                    if let Some((_, what, p)) = sim4.panics.first() {
                        r.violate(format!("C12|panic|restart-after-recovery|{}|{}", what, p.site()), format!("crash at journal op {} ({}): recovered and extended, but the next clean start-up panicked: {} ({}:{})", k, tear, p.msg.chars().take(140).collect::<String>(), p.file, p.line));
                        continue;
                    }
                    if sim4.nodes[0].tip().1 != want_tip {
                        r.violate(
                            if plan.delete_old_blocks { "C12|restart-after-recovery|tip-differs" } else { "C12|restart-after-recovery|tip-differs|stale-files-kept" },
                            format!("crash at journal op {} ({}): recovered at id {} and extended to id {}, but after a clean shutdown the node restarts at id {}", k, tear, tip.0, c.recs[(i + 3).min(c.recs.len() - 1)].id, sim4.nodes[0].tip().0),
                        );
                        continue;
                    }
                    r.probe("clean_restart_after_recovery_ok");
                }
            } else {
                r.probe("restarted_on_side_fork");
            }
            r.steps += 1;
        }
        r.probe_n("journal_ops", journal.len() as u64);
        r.state_hash = trace.get();
        r.trace_hash = trace.get();
        r
    }
    fn shrink(&self, _plan: &Value) -> Vec<Value> {
        vec![]
    }
}
