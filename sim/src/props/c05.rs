//! C05 — fork choice: longest, heavy-enough, valid chain with enough golden tickets.
//!
//! Block trees with arbitrary golden-ticket placement, burn-fee profiles (via timestamps) and
//! blocks that are invalid by construction (with children built on top of them), delivered in
//! seeded orders; a reference fork-choice monitor judges every tip movement and every
//! non-movement.

use serde::{Deserialize, Serialize};
use serde_json::Value;

use crate::framework::*;
use crate::props::c03::{build_tree, TreeNode};
use crate::rng::Rng;
use crate::util::Digest;
use crate::world::*;

pub struct C05;

#[derive(Clone, Debug, Serialize, Deserialize)]
pub struct Plan {
    pub seed: u64,
    pub nodes: Vec<TreeNode>,
    pub order: Vec<u64>,
    pub style: String,
    /// prune depth of the node (0 = default 8): with 1..3 the old chain a failing reorganisation has to wind
    /// back consists of blocks whose transactions must be re-read from disk
    #[serde(default)]
    pub prune_after: u64,
}

fn gen(seed: u64, tier: Tier) -> Plan {
    let mut rng = Rng::new(seed);
    let max_n = if tier == Tier::Quick { 14 } else { 30 };
    let style = *rng.pick(&["two-forks", "sparse-interior", "sparse-deep", "random", "light-long", "invalid-mid", "equal", "burnfee-floor"]);
    let mut nodes: Vec<TreeNode> = vec![];
    let mut depth: Vec<u64> = vec![1];
    let healthy_gt = |d: u64| d % 2 == 0;
    let mut push = |nodes: &mut Vec<TreeNode>, depth: &mut Vec<u64>, parent: u64, gt: bool, dt: u64, invalid: &str, ntx: usize| -> u64 {
        let uid = nodes.len() as u64 + 1;
        let d = depth[parent as usize] + 1;
        depth.push(d);
        nodes.push(TreeNode { uid, parent, ntx, gt, dt, invalid: invalid.to_string() });
        uid
    };
    match style {
        // burn fee driven down to single digits by a prefix of blocks hours apart; the two forks then use gaps of
        // 2, 4 or 8 heartbeats, so that their cumulative burn fees are small integers and exact ties are common:
        // a strictly longer challenger that carries exactly as much burn fee has to be adopted
        "burnfee-floor" => {
            let mut cur = 0u64;
            let prefix = rng.range(5, 7);
            for _ in 0..prefix {
                let d = depth[cur as usize] + 1;
                cur = push(&mut nodes, &mut depth, cur, healthy_gt(d), 3_000_000 + rng.below(3_000_000), "", 1);
            }
            let fork = cur;
            let a_len = rng.range(1, 2);
            let mut a = fork;
            for _ in 0..a_len {
                let d = depth[a as usize] + 1;
                a = push(&mut nodes, &mut depth, a, healthy_gt(d), 2000 * *rng.pick(&[1u64, 1, 2]), "", 1);
            }
            let mut b = fork;
            for _ in 0..a_len + 1 {
                let d = depth[b as usize] + 1;
                b = push(&mut nodes, &mut depth, b, healthy_gt(d), 2000 * *rng.pick(&[1u64, 2, 4]) + 7, "", 1);
            }
        }
        "two-forks" | "light-long" | "equal" | "invalid-mid" | "sparse-interior" | "sparse-deep" => {
            let prefix = rng.below(4);
            let mut cur = 0u64;
            for _ in 0..prefix {
                let d = depth[cur as usize] + 1;
                cur = push(&mut nodes, &mut depth, cur, healthy_gt(d), 2000 + rng.below(2000), "", 1);
            }
            let fork = cur;
            // sparse-deep: a long challenger whose ticket-poor window lies more than six blocks below its tip
            let a_len = if style == "sparse-deep" { rng.range(11, 13) } else { rng.range(1, (max_n as u64 - prefix) / 2) };
            let b_len = match style {
                "equal" => a_len,
                "sparse-deep" => a_len + 1,
                _ => a_len + rng.range(1, 2),
            };
            // fork A: honest, healthy
            let mut a = fork;
            for _ in 0..a_len {
                let d = depth[a as usize] + 1;
                // slow blocks = lower burn fee; fast blocks = higher burn fee
                let dt = if style == "light-long" { 2000 + rng.below(300) } else { 2000 + rng.below(2500) };
                a = push(&mut nodes, &mut depth, a, healthy_gt(d), dt, "", 1 + rng.below(2) as usize);
            }
            // fork B: the challenger
            let mut b = fork;
            let bad_at = rng.below(b_len);
            let kind = rng.pick(BLOCK_INVALIDITY_KINDS).to_string();
            for j in 0..b_len {
                let d = depth[b as usize] + 1;
                let dt = if style == "light-long" { 6000 + rng.below(4000) } else { 2000 + rng.below(2500) };
                let gt = if style == "sparse-interior" {
                    // no tickets in the interior, tickets only near the tip
                    j + 2 >= b_len
                } else if style == "sparse-deep" {
                    // one ticket among the first six blocks, a healthy alternation afterwards
                    j == 4 || (j >= 6 && (j - 6) % 2 == 0)
                } else {
                    healthy_gt(d)
                };
                let inv = if style == "invalid-mid" && j == bad_at { kind.as_str() } else { "" };
                b = push(&mut nodes, &mut depth, b, gt, dt, inv, 1 + rng.below(2) as usize);
            }
        }
        _ => {
            let n = rng.range(3, max_n as u64);
            for i in 1..=n {
                let p = if rng.chance(2, 3) { i - 1 } else { rng.below(i) };
                let d = depth[p as usize] + 1;
                let gt = if rng.chance(1, 4) { rng.chance(1, 2) } else { healthy_gt(d) };
                let inv = if rng.chance(1, 15) { rng.pick(BLOCK_INVALIDITY_KINDS).to_string() } else { String::new() };
                push(&mut nodes, &mut depth, p, gt, 2000 + rng.below(4000), &inv, 1 + rng.below(3) as usize);
            }
        }
    }
    // delivery: linear extension; in fork styles deliver A fully then B, or interleaved
    let n = nodes.len();
    let mut order: Vec<u64> = vec![];
    let mut remaining: Vec<u64> = (1..=n as u64).collect();
    let mut delivered: Vec<u64> = vec![0];
    let interleave = rng.chance(1, 2);
    while !remaining.is_empty() {
        let ready: Vec<usize> = remaining
            .iter()
            .enumerate()
            .filter(|(_, u)| delivered.contains(&nodes[(**u - 1) as usize].parent))
            .map(|(i, _)| i)
            .collect();
        let pick = if interleave { *rng.pick(&ready) } else { ready[0] };
        let u = remaining.remove(pick);
        delivered.push(u);
        order.push(u);
    }
    if rng.chance(1, 30) && order.len() >= 3 {
        let i = rng.usize_below(order.len() - 1);
        order.swap(i, i + 1);
    }
    let prune_after = *rng.pick(&[0u64, 0, 1, 2, 3]);
    Plan { seed, nodes, order, style: style.to_string(), prune_after }
}

/// property version: every window of six consecutive blocks on the chain holds >= 2 tickets
fn density_violation(w: &World, path: &[usize]) -> Option<u64> {
    if path.len() < 6 {
        return None;
    }
    for s in 0..=path.len() - 6 {
        let c = path[s..s + 6].iter().filter(|i| w.recs[**i].has_gt).count();
        if c < 2 {
            return Some(w.recs[path[s + 5]].id);
        }
    }
    None
}

/// stricter version used for the converse direction: additionally the start-up rule the code
/// applies (a block with exactly four predecessors needs one ticket among the five)
fn density_ok_strict(w: &World, path: &[usize]) -> bool {
    if density_violation(w, path).is_some() {
        return false;
    }
    if path.len() >= 5 {
        for s in 0..=path.len() - 5 {
            let c = path[s..s + 5].iter().filter(|i| w.recs[**i].has_gt).count();
            if c < 1 {
                return false;
            }
        }
    }
    true
}

fn common_prefix_len(a: &[usize], b: &[usize]) -> usize {
    let mut i = 0;
    while i < a.len() && i < b.len() && a[i] == b[i] {
        i += 1;
    }
    i
}

impl Scenario for C05 {
    fn id(&self) -> &'static str {
        "C05"
    }
    fn meta(&self) -> Meta {
        Meta {
            level: "exploration",
            rule: "run = block tree (styles: two competing forks off a shared prefix; longer-but-lighter challenger via slow timestamps; equal-length forks; challenger with an invalid block at any position and honest children on top; challenger whose interior has no golden tickets; 12-14 block challenger whose only ticket-poor window lies more than six blocks below its tip; random trees) + seeded delivery order (fork after fork, or interleaved; rarely a child before its parent) into the real Blockchain::add_block. Monitor after every delivery: height never decreases; a tip move must go to a strictly longer chain with >= cumulative burn fee over the diverging segment, valid block by block (by construction) and >= 2 tickets in every 6-window; a delivered block that completes such a chain (strict ticket rule) must become the tip. distinct_nontrivial = distinct (tree, GT pattern, burn-fee ordering, delivery order) digests of runs with >= 2 competing tips stored at some moment.",
            real: &["Blockchain::add_block/is_new_chain_the_longest_chain/validate/is_golden_ticket_count_valid", "BurnFee", "Block::create/validate", "BlockRing"],
            stubs: &["SimIo", "SimConfig", "vendored ahash"],
            assumptions: &["validity by construction: honest builder output is valid, any edited block and all its descendants are invalid", "genesis period >> tree"],
        }
    }
    fn budget(&self, tier: Tier) -> Budget {
        match tier {
            Tier::Quick => Budget { max_runs: 40_000, wall_s: 40 },
            Tier::Thorough => Budget { max_runs: 2_000_000, wall_s: 420 },
        }
    }
    fn generate(&self, seed: u64, index: u64, tier: Tier) -> Value {
        serde_json::to_value(gen(derive_run_seed(seed, "C05", index), tier)).unwrap()
    }
    fn execute(&self, plan: &Value) -> RunResult {
        let plan: Plan = serde_json::from_value(plan.clone()).expect("plan");
        let mut r = RunResult::default();
        let mut w = World::new(plan.seed, Params::default());
        let built = crate::util::guarded(|| build_tree(&mut w, &plan.nodes, plan.seed));
        let map = match built {
            Ok(Ok(m)) => m,
            _ => {
                r.discarded = true;
                r.probe("builder_failed");
                return r;
            }
        };
        let max_height = w.recs.iter().map(|b| b.id).max().unwrap_or(1);
        let mut ncfg = w.cfg.clone();
        if plan.prune_after > 0 {
            ncfg.consensus.prune_after_blocks = plan.prune_after;
        }
        let mut n = Node::new(&ncfg, &w.keys[1].clone());
        let mut trace = Digest::new();
        let _ = n.add_block_bytes(&w.recs[0].bytes.clone());
        let mut orphan_seen = false;
        let mut competing = false;
        let mut shape = Digest::new();
        for nd in &plan.nodes {
            shape.u64(nd.uid).u64(nd.parent).u64(nd.gt as u64).u64(nd.dt / 500).str(&nd.invalid);
        }
        for u in &plan.order {
            shape.u64(*u);
        }
        for (step, uid) in plan.order.iter().enumerate() {
            let idx = match map.iter().find(|(u, _)| u == uid) {
                Some((_, i)) => *i,
                None => continue,
            };
            let before = n.tip();
            let before_idx = match w.by_hash.get(&before.1) {
                Some(i) => *i,
                None => break,
            };
            let parent_known = n.bc.blocks.contains_key(&w.recs[idx].parent);
            let has_stored_descendant = n.bc.blocks.values().any(|b| b.previous_block_hash == w.recs[idx].hash);
            if !parent_known || has_stored_descendant {
                orphan_seen = true;
                r.fault("orphan_delivery", 1);
            }
            if !w.recs[idx].valid {
                r.fault("invalid_block_delivery", 1);
            }
            let index_before: Vec<Option<[u8; 32]>> = (1..=max_height + 1)
                .map(|id| n.bc.blockring.get_longest_chain_block_hash_at_block_id(id))
                .collect();
            saito_core::core::util::verif::set_step_budget(8 * (2 * max_height + 4) + 16);
            let bytes = w.recs[idx].bytes.clone();
            let res = crate::util::guarded(|| n.add_block_bytes(&bytes));
            saito_core::core::util::verif::set_step_budget(u64::MAX);
            let res = match res {
                Ok(x) => x,
                Err(p) => {
                    if orphan_seen {
                        // the ledger / index were already disturbed by the orphan branch (known finding); what
                        // follows, a failing supply check included, is a consequence of it
                        r.violate("C05|after-orphan-delivery|fork-choice-disturbed", format!("a block was delivered before its parent; then: add_block panicked: {} ({}:{})", p.msg.chars().take(120).collect::<String>(), p.file, p.line));
                    } else if p.step_budget {
                        r.violate(format!("C05|does-not-return|{}", p.site()), format!("step {}: add_block exceeded its step budget", step));
                    } else {
                        r.violate(format!("C05|panic|{}", p.site()), format!("{} at {}:{}", p.msg, p.file, p.line));
                    }
                    break;
                }
            };
            let oc = res.as_ref().map(outcome_of);
            trace.u64(step as u64).str(&format!("{:?}", oc));
            r.steps += 1;
            let after = n.tip();
            trace.bytes(&after.1);
            let mut tmp = RunResult::default();
            // orphan clause: a block that arrives before its parent neither moves the tip nor disturbs the index
            if !parent_known {
                let index_after: Vec<Option<[u8; 32]>> = (1..=max_height + 1)
                    .map(|id| n.bc.blockring.get_longest_chain_block_hash_at_block_id(id))
                    .collect();
                if after != before || index_after != index_before {
                    tmp.violate("C05|orphan|moved-tip-or-index", format!("step {}: block id {} delivered before its parent changed tip {}->{} or the index", step, w.recs[idx].id, before.0, after.0));
                }
            }
            if after.0 < before.0 {
                tmp.violate("C05|height-decreased", format!("step {}: tip height went from {} to {}", step, before.0, after.0));
            }
            let after_idx = w.by_hash.get(&after.1).cloned();
            if after_idx.is_none() {
                tmp.violate("C05|tip-unknown", format!("step {}: tip hash unknown", step));
            }
            if let Some(ai) = after_idx {
                if after.1 != before.1 {
                    let new_path = w.path_to(ai);
                    let old_path = w.path_to(before_idx);
                    let cp = common_prefix_len(&new_path, &old_path);
                    let new_seg = &new_path[cp..];
                    let old_seg = &old_path[cp..];
                    if new_path.len() <= old_path.len() {
                        tmp.violate("C05|moved|not-strictly-longer", format!("step {}: tip moved from a chain of {} to a chain of {}", step, old_path.len(), new_path.len()));
                    }
                    let nbf: u128 = new_seg.iter().map(|i| w.recs[*i].burnfee as u128).sum();
                    let obf: u128 = old_seg.iter().map(|i| w.recs[*i].burnfee as u128).sum();
                    if nbf < obf {
                        tmp.violate("C05|moved|lighter-chain", format!("step {}: new segment burn fee {} < old segment {}", step, nbf, obf));
                    }
                    if let Some(bad) = new_seg.iter().find(|i| !w.recs[**i].valid) {
                        // name the first invalid block's kind
                        let first_invalid = new_path.iter().find(|i| w.recs[**i].note.starts_with("invalid:")).map(|i| w.recs[*i].note.clone()).unwrap_or_default();
                        tmp.violate(
                            format!("C05|moved|onto-invalid-chain|{}", first_invalid),
                            format!("step {}: tip moved onto a chain containing block id {} which is invalid by construction ({})", step, w.recs[*bad].id, first_invalid),
                        );
                    }
                    if let Some(at) = density_violation(&w, &new_path) {
                        if new_seg.iter().any(|i| w.recs[*i].id + 0 >= at.saturating_sub(5)) {
                            let at_tip = at == w.recs[ai].id;
                            tmp.violate(
                                if at_tip { "C05|moved|sparse-tickets-at-tip" } else { "C05|moved|sparse-tickets-in-interior" },
                                format!("step {}: adopted chain has fewer than 2 golden tickets in the six blocks ending at id {} (tip id {})", step, at, w.recs[ai].id),
                            );
                        }
                    }
                    if old_seg.len() > 0 || new_seg.len() > 1 {
                        r.probe("reorganisation");
                    }
                }
                // converse: the delivered block completes a chain that must win
                if w.recs[idx].valid && parent_known && !has_stored_descendant {
                    let cpath = w.path_to(idx);
                    let all_stored = cpath.iter().all(|i| n.bc.blocks.contains_key(&w.recs[*i].hash) || *i == idx);
                    let old_path = w.path_to(before_idx);
                    let cp = common_prefix_len(&cpath, &old_path);
                    let nbf: u128 = cpath[cp..].iter().map(|i| w.recs[*i].burnfee as u128).sum();
                    let obf: u128 = old_path[cp..].iter().map(|i| w.recs[*i].burnfee as u128).sum();
                    if all_stored && cpath.len() > old_path.len() && nbf >= obf && density_ok_strict(&w, &cpath) && !orphan_seen {
                        if after.1 != w.recs[idx].hash {
                            tmp.violate(
                                "C05|not-adopted|qualifying-chain",
                                format!("step {}: block id {} completes a longer ({} > {}), heavy-enough ({} >= {}), valid, ticket-dense chain but the tip is id {} ({:?})", step, w.recs[idx].id, cpath.len(), old_path.len(), nbf, obf, after.0, oc),
                            );
                        } else {
                            r.probe("qualifying_chain_adopted");
                        }
                    }
                }
            }
            // competing tips stored?
            let leaves = n.bc.blocks.values().filter(|b| !n.bc.blocks.values().any(|c| c.previous_block_hash == b.hash)).count();
            if leaves >= 2 {
                competing = true;
            }
            if !tmp.violations.is_empty() {
                for v in tmp.violations {
                    if orphan_seen {
                        r.violate("C05|after-orphan-delivery|fork-choice-disturbed", format!("a block was delivered before its parent; then: {}", v.detail));
                    } else {
                        r.violate(v.signature, v.detail);
                    }
                }
                break;
            }
        }
        if competing {
            r.nontrivial.push(shape.get());
        }
        r.state_hash = {
            let mut d = Digest::new();
            d.bytes(&n.tip().1);
            d.get()
        };
        r.trace_hash = trace.get();
        r
    }
    fn shrink(&self, plan: &Value) -> Vec<Value> {
        let plan: Plan = match serde_json::from_value(plan.clone()) {
            Ok(p) => p,
            Err(_) => return vec![],
        };
        let mut out = vec![];
        if plan.order.len() > 1 {
            let mut p = plan.clone();
            p.order.pop();
            out.push(p);
        }
        for nd in plan.nodes.iter().rev() {
            if plan.nodes.iter().any(|x| x.parent == nd.uid) {
                continue;
            }
            let mut p = plan.clone();
            p.nodes.retain(|x| x.uid != nd.uid);
            p.order.retain(|u| *u != nd.uid);
            out.push(p);
        }
        // remove an interior node by re-parenting its children (keeps uids)
        for nd in plan.nodes.iter() {
            let mut p = plan.clone();
            for c in p.nodes.iter_mut() {
                if c.parent == nd.uid {
                    c.parent = nd.parent;
                }
            }
            p.nodes.retain(|x| x.uid != nd.uid);
            p.order.retain(|u| *u != nd.uid);
            out.push(p);
        }
        for (i, nd) in plan.nodes.iter().enumerate() {
            if nd.ntx > 1 {
                let mut p = plan.clone();
                p.nodes[i].ntx = 1;
                out.push(p);
            }
        }
        out.into_iter().map(|p| serde_json::to_value(p).unwrap()).collect()
    }
}
