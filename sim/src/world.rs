//! Keys, L1 node (Blockchain + Mempool + Storage over SimIo), reference tree/ledger, block builder.

use std::collections::BTreeMap;
use std::sync::{Arc, Mutex};

use ahash::AHashMap;
use saito_core::core::consensus::block::{Block, BlockType};
use saito_core::core::consensus::blockchain::{AddBlockResult, Blockchain};
use saito_core::core::consensus::golden_ticket::GoldenTicket;
use saito_core::core::consensus::mempool::Mempool;
use saito_core::core::consensus::slip::{Slip, SlipType};
use saito_core::core::consensus::transaction::{Transaction, TransactionType};
use saito_core::core::consensus::wallet::Wallet;
use saito_core::core::defs::{SaitoHash, SaitoPrivateKey, SaitoPublicKey, SaitoSignature};
use saito_core::core::io::storage::Storage;
use saito_core::core::util::crypto::{generate_keypair_from_private_key, hash};
use saito_core::core::util::verif::RwLock;

use crate::rng::Rng;
use crate::simcfg::SimConfig;
use crate::simio::{DiskState, Outbox, SimIo};
use crate::util::block_on;

pub const TS0: u64 = 1_700_000_000_000;

#[derive(Clone, Debug)]
pub struct Key {
    pub sk: SaitoPrivateKey,
    pub pk: SaitoPublicKey,
}

pub fn derive_key(seed: u64, idx: u64) -> Key {
    let mut ctr = 0u64;
    loop {
        let mut buf = b"saito-sim-key".to_vec();
        buf.extend_from_slice(&seed.to_le_bytes());
        buf.extend_from_slice(&idx.to_le_bytes());
        buf.extend_from_slice(&ctr.to_le_bytes());
        let sk = hash(&buf);
        if secp_ok(&sk) {
            let (pk, sk) = generate_keypair_from_private_key(&sk);
            return Key { sk, pk };
        }
        ctr += 1;
    }
}

fn secp_ok(sk: &[u8; 32]) -> bool {
    // valid secret keys are 1..n-1; reject the astronomically unlikely rest conservatively
    sk.iter().any(|b| *b != 0) && sk[0] < 0xFF
}

// ---------------------------------------------------------------------------------------------
// reference model: slips, txs, blocks, ledger (independent of the code under test: reads only
// public data fields of decoded blocks and recomputes utxo keys itself)

#[derive(Clone, Debug, PartialEq, Eq)]
pub struct SlipRef {
    pub pk: SaitoPublicKey,
    pub amount: u64,
    pub block_id: u64,
    pub tx_ordinal: u64,
    pub slip_index: u8,
    pub stype: SlipType,
}

pub type UtxoKey = [u8; 59];

pub fn slip_type_code(t: SlipType) -> u8 {
    match t {
        SlipType::Normal => 0,
        SlipType::ATR => 1,
        SlipType::VipInput => 2,
        SlipType::VipOutput => 3,
        SlipType::MinerInput => 4,
        SlipType::MinerOutput => 5,
        SlipType::RouterInput => 6,
        SlipType::RouterOutput => 7,
        SlipType::BlockStake => 8,
        SlipType::Bound => 9,
    }
}

impl SlipRef {
    pub fn key(&self) -> UtxoKey {
        let mut k = [0u8; 59];
        k[0..33].copy_from_slice(&self.pk);
        k[33..41].copy_from_slice(&self.block_id.to_be_bytes());
        k[41..49].copy_from_slice(&self.tx_ordinal.to_be_bytes());
        k[49] = self.slip_index;
        k[50..58].copy_from_slice(&self.amount.to_be_bytes());
        k[58] = slip_type_code(self.stype);
        k
    }
    pub fn to_slip(&self) -> Slip {
        let mut s = Slip::default();
        s.public_key = self.pk;
        s.amount = self.amount;
        s.block_id = self.block_id;
        s.tx_ordinal = self.tx_ordinal;
        s.slip_index = self.slip_index;
        s.slip_type = self.stype;
        s
    }
    pub fn from_slip(s: &Slip) -> SlipRef {
        SlipRef {
            pk: s.public_key,
            amount: s.amount,
            block_id: s.block_id,
            tx_ordinal: s.tx_ordinal,
            slip_index: s.slip_index,
            stype: s.slip_type,
        }
    }
}

#[derive(Clone, Debug)]
pub struct TxRec {
    pub ttype: TransactionType,
    pub sig: SaitoSignature,
    pub inputs: Vec<SlipRef>,
    pub outputs: Vec<SlipRef>,
}

#[derive(Clone, Debug)]
pub struct BlockRec {
    pub hash: SaitoHash,
    pub parent: SaitoHash,
    pub id: u64,
    pub ts: u64,
    pub creator: SaitoPublicKey,
    pub burnfee: u64,
    pub has_gt: bool,
    pub bytes: Vec<u8>,
    pub txs: Vec<TxRec>,
    /// valid by construction (honest builder, no edit applied, all ancestors valid)
    pub valid: bool,
    pub note: String,
}

/// what the block's transactions say, re-derived from public fields only: outputs get
/// (block id, index of tx in block, index of slip in tx); inputs are taken as stated
pub fn rec_from_block(b: &Block, valid: bool, note: &str) -> BlockRec {
    let mut txs = vec![];
    for (ti, tx) in b.transactions.iter().enumerate() {
        let inputs = tx.from.iter().map(SlipRef::from_slip).collect();
        let outputs = tx
            .to
            .iter()
            .enumerate()
            .map(|(si, s)| SlipRef {
                pk: s.public_key,
                amount: s.amount,
                block_id: b.id,
                tx_ordinal: ti as u64,
                slip_index: si as u8,
                stype: s.slip_type,
            })
            .collect();
        txs.push(TxRec {
            ttype: tx.transaction_type,
            sig: tx.signature,
            inputs,
            outputs,
        });
    }
    BlockRec {
        hash: b.hash,
        parent: b.previous_block_hash,
        id: b.id,
        ts: b.timestamp,
        creator: b.creator,
        burnfee: b.burnfee,
        has_gt: b
            .transactions
            .iter()
            .any(|t| t.transaction_type == TransactionType::GoldenTicket),
        bytes: b.serialize_for_net(BlockType::Full),
        txs,
        valid,
        note: note.to_string(),
    }
}

#[derive(Clone, Debug, Default)]
pub struct RefLedger {
    pub utxo: BTreeMap<UtxoKey, SlipRef>,
}

impl RefLedger {
    /// apply a block; returns descriptions of inputs that were not spendable (for C01-style oracles)
    pub fn apply(&mut self, rec: &BlockRec) -> Vec<String> {
        let mut bad = vec![];
        for (ti, tx) in rec.txs.iter().enumerate() {
            if tx.ttype != TransactionType::Fee {
                for i in &tx.inputs {
                    if i.amount == 0 {
                        continue;
                    }
                    if self.utxo.remove(&i.key()).is_none() {
                        bad.push(format!("block {} tx {} input not spendable", rec.id, ti));
                    }
                }
            }
            for o in &tx.outputs {
                if o.amount == 0 {
                    continue;
                }
                self.utxo.insert(o.key(), o.clone());
            }
        }
        bad
    }
    pub fn unspent_of(&self, pk: &SaitoPublicKey) -> Vec<SlipRef> {
        self.utxo.values().filter(|s| &s.pk == pk).cloned().collect()
    }
    pub fn total(&self) -> u128 {
        self.utxo.values().map(|s| s.amount as u128).sum()
    }
    pub fn keys(&self) -> Vec<UtxoKey> {
        self.utxo.keys().cloned().collect()
    }
}

// ---------------------------------------------------------------------------------------------
// L1 node

pub struct Node {
    pub bc: Blockchain,
    pub mempool: Mempool,
    pub storage: Storage,
    pub cfg: SimConfig,
    pub wallet: Arc<RwLock<Wallet>>,
    pub disk: Arc<Mutex<DiskState>>,
    pub out: Arc<Mutex<Outbox>>,
}

#[derive(Clone, Debug, PartialEq, Eq)]
pub enum AddOutcome {
    Added { longest: bool },
    Exists,
    Retry,
    Invalid,
}

pub fn outcome_of(r: &AddBlockResult) -> AddOutcome {
    match r {
        AddBlockResult::BlockAddedSuccessfully(_, lc, _) => AddOutcome::Added { longest: *lc },
        AddBlockResult::BlockAlreadyExists => AddOutcome::Exists,
        AddBlockResult::FailedButRetry(_, _, _) => AddOutcome::Retry,
        AddBlockResult::FailedNotValid => AddOutcome::Invalid,
    }
}

impl Node {
    pub fn new(cfg: &SimConfig, wallet_key: &Key) -> Node {
        Node::with_disk(cfg, wallet_key, Arc::new(Mutex::new(DiskState::default())))
    }
    pub fn with_disk(cfg: &SimConfig, wallet_key: &Key, disk: Arc<Mutex<DiskState>>) -> Node {
        let out = Arc::new(Mutex::new(Outbox::default()));
        let wallet = Arc::new(RwLock::new(Wallet::new(wallet_key.sk, wallet_key.pk)));
        let bc = Blockchain::new(
            wallet.clone(),
            cfg.consensus.genesis_period,
            cfg.consensus.default_social_stake,
            cfg.consensus.default_social_stake_period,
        );
        let mempool = Mempool::new(wallet.clone());
        let storage = Storage::new(Box::new(SimIo::new(disk.clone(), out.clone())));
        Node {
            bc,
            mempool,
            storage,
            cfg: cfg.clone(),
            wallet,
            disk,
            out,
        }
    }
    pub fn add_block(&mut self, block: Block) -> AddBlockResult {
        block_on(
            self.bc
                .add_block(block, &mut self.storage, &mut self.mempool, &self.cfg),
        )
    }
    /// the production path for a block that arrives as bytes: decode + generate, then add
    pub fn add_block_bytes(&mut self, bytes: &[u8]) -> Option<AddBlockResult> {
        let mut b = Block::deserialize_from_net(bytes).ok()?;
        if b.generate().is_err() {
            return Some(AddBlockResult::FailedNotValid);
        }
        Some(self.add_block(b))
    }
    pub fn add_tx(&mut self, tx: Transaction) -> bool {
        let sig = tx.signature;
        block_on(self.mempool.add_transaction_if_validates(tx, &self.bc));
        self.mempool.transactions.contains_key(&sig)
    }
    pub fn tip(&self) -> (u64, SaitoHash) {
        (self.bc.get_latest_block_id(), self.bc.get_latest_block_hash())
    }
    /// sorted spendable utxo keys
    pub fn utxo_keys(&self) -> Vec<UtxoKey> {
        let mut v: Vec<UtxoKey> = self
            .bc
            .utxoset
            .iter()
            .filter(|(_, v)| **v)
            .map(|(k, _)| *k)
            .collect();
        v.sort();
        v
    }
}

// ---------------------------------------------------------------------------------------------
// transactions and blocks

pub fn make_tx(
    signer: &Key,
    inputs: &[SlipRef],
    outputs: &[(SaitoPublicKey, u64)],
    ts: u64,
    data: &[u8],
) -> Transaction {
    let mut tx = Transaction::default();
    tx.timestamp = ts;
    tx.data = data.to_vec();
    for i in inputs {
        tx.add_from_slip(i.to_slip());
    }
    if inputs.is_empty() {
        let mut s = Slip::default();
        s.public_key = signer.pk;
        tx.add_from_slip(s);
    }
    for (pk, amount) in outputs {
        let mut s = Slip::default();
        s.public_key = *pk;
        s.amount = *amount;
        tx.add_to_slip(s);
    }
    tx.sign(&signer.sk);
    tx
}

/// NFT creation: [Bound(creator, 1), Normal(recipient, deposit), Bound(uuid of the consumed output, 0), change]
pub fn make_nft_tx(signer: &Key, input: &SlipRef, recipient: &SaitoPublicKey, deposit: u64, change: u64, ts: u64, data: &[u8]) -> Transaction {
    let mut tx = Transaction::default();
    tx.transaction_type = TransactionType::Bound;
    tx.timestamp = ts;
    tx.data = data.to_vec();
    let inp = input.to_slip();
    let uuid = Wallet::create_nft_uuid(&inp, "simnft");
    tx.add_from_slip(inp);
    let mut s1 = Slip::default();
    s1.public_key = signer.pk;
    s1.amount = 1;
    s1.slip_type = SlipType::Bound;
    tx.add_to_slip(s1);
    let mut s2 = Slip::default();
    s2.public_key = *recipient;
    s2.amount = deposit;
    tx.add_to_slip(s2);
    let mut s3 = Slip::default();
    s3.public_key = uuid;
    s3.amount = 0;
    s3.slip_type = SlipType::Bound;
    tx.add_to_slip(s3);
    if change > 0 {
        let mut s4 = Slip::default();
        s4.public_key = signer.pk;
        s4.amount = change;
        tx.add_to_slip(s4);
    }
    tx.sign(&signer.sk);
    tx
}

pub fn mine_gt(target: SaitoHash, difficulty: u64, miner: &Key, salt: u64) -> GoldenTicket {
    let mut ctr = 0u64;
    loop {
        let mut buf = b"gt".to_vec();
        buf.extend_from_slice(&salt.to_le_bytes());
        buf.extend_from_slice(&ctr.to_le_bytes());
        let random = hash(&buf);
        let gt = GoldenTicket::create(target, random, miner.pk);
        if gt.validate(difficulty) {
            return gt;
        }
        ctr += 1;
    }
}

pub fn gt_tx(gt: GoldenTicket, miner: &Key) -> Transaction {
    block_on(Wallet::create_golden_ticket_transaction(gt, &miner.pk, &miner.sk))
}

#[derive(Clone, Debug)]
pub struct BlockSpec {
    pub parent: SaitoHash,
    pub ts: u64,
    pub txs: Vec<Transaction>,
    pub gt: bool,
    pub creator: usize,
}

/// build a block with the real `Block::create` on `builder`, which must store the parent
pub fn build_block(builder: &Node, keys: &[Key], spec: BlockSpec) -> Result<Block, String> {
    build_block_with_ticket(builder, keys, spec, None)
}

/// as `build_block`; `ticket` (when given) replaces the honestly mined golden ticket of a `spec.gt` block
pub fn build_block_with_ticket(builder: &Node, keys: &[Key], spec: BlockSpec, ticket: Option<(GoldenTicket, usize)>) -> Result<Block, String> {
    build_block_custom(builder, keys, spec, ticket, None)
}

/// as `build_block_with_ticket`; `edit_gt` may rework the finished golden-ticket transaction (add inputs,
/// outputs, a routing path; it has to re-sign it itself) before the block is created around it
pub fn build_block_custom(builder: &Node, keys: &[Key], spec: BlockSpec, ticket: Option<(GoldenTicket, usize)>, edit_gt: Option<&dyn Fn(&mut Transaction)>) -> Result<Block, String> {
    let creator = &keys[spec.creator];
    let mut map: AHashMap<SaitoSignature, Transaction> = AHashMap::new();
    for mut tx in spec.txs {
        tx.generate(&creator.pk, 0, 0);
        map.insert(tx.signature, tx);
    }
    let gt = if spec.gt {
        let parent = builder
            .bc
            .get_block(&spec.parent)
            .ok_or_else(|| "parent not stored in builder".to_string())?;
        // the harness's own miner needs 2^difficulty hashes: beyond this the run is given up by its caller
        // (a builder failure), never hung
        if parent.difficulty > 18 {
            return Err(format!("harness miner: difficulty {} too high", parent.difficulty));
        }
        let mut t = match ticket {
            Some((g, miner)) => gt_tx(g, &keys[miner]),
            None => gt_tx(mine_gt(parent.hash, parent.difficulty, creator, parent.id), creator),
        };
        if let Some(f) = edit_gt {
            f(&mut t);
        }
        t.generate(&creator.pk, 0, 0);
        Some(t)
    } else {
        None
    };
    let r = block_on(Block::create(
        &mut map,
        spec.parent,
        &builder.bc,
        spec.ts,
        &creator.pk,
        &creator.sk,
        gt,
        &builder.cfg,
        &builder.storage,
    ));
    r.map_err(|e| format!("Block::create failed: {:?}", e))
}

/// re-sign a block whose header or transactions were edited (consistent: merkle, pre-hash, sig, hash)
pub fn reseal(b: &mut Block, creator: &Key, recompute_merkle: bool) {
    if recompute_merkle {
        b.merkle_root = [0; 32];
    }
    b.created_hashmap_of_slips_spent_this_block = false;
    b.slips_spent_this_block.clear();
    b.transaction_map.clear();
    let _ = b.generate(); // fills merkle (when zero), pre_hash
    b.sign(&creator.sk);
    b.created_hashmap_of_slips_spent_this_block = false;
    b.slips_spent_this_block.clear();
    let _ = b.generate(); // hash over signed pre-hash
}

// ---------------------------------------------------------------------------------------------
// world: keys + genesis + reference tree + universe builder

#[derive(Clone, Debug)]
pub struct Params {
    pub genesis_period: u64,
    pub heartbeat: u64,
    pub n_users: usize,
    pub slips_per_user: usize,
    pub base_amount: u64,
}

impl Default for Params {
    fn default() -> Self {
        Params {
            genesis_period: 1000,
            heartbeat: 1000,
            n_users: 3,
            slips_per_user: 6,
            base_amount: 1_000_000,
        }
    }
}

pub struct World {
    pub seed: u64,
    pub params: Params,
    pub cfg: SimConfig,
    /// keys[0] = block creator / miner, keys[1..=n_users] = users, keys[n_users+1] = attacker
    pub keys: Vec<Key>,
    pub recs: Vec<BlockRec>,
    pub by_hash: BTreeMap<SaitoHash, usize>,
    /// holds every block ever built (universe mode)
    pub builder: Node,
    pub tx_counter: u64,
}

impl World {
    pub fn new(seed: u64, params: Params) -> World {
        let cfg = SimConfig::new(params.genesis_period, params.heartbeat);
        let mut bcfg = cfg.clone();
        bcfg.consensus.prune_after_blocks = 1_000_000_000;
        let n_keys = params.n_users + 3;
        let keys: Vec<Key> = (0..n_keys as u64).map(|i| derive_key(seed, i)).collect();
        let builder = Node::new(&bcfg, &keys[0]);
        let mut w = World {
            seed,
            params,
            cfg,
            keys,
            recs: vec![],
            by_hash: BTreeMap::new(),
            builder,
            tx_counter: 0,
        };
        w.build_genesis();
        w
    }

    pub fn attacker(&self) -> &Key {
        &self.keys[self.params.n_users + 1]
    }

    fn build_genesis(&mut self) {
        let mut txs = vec![];
        for u in 1..=self.params.n_users {
            let mut tx = Transaction::default();
            tx.transaction_type = TransactionType::Issuance;
            tx.timestamp = TS0 + u as u64;
            for s in 0..self.params.slips_per_user {
                let mut o = Slip::default();
                o.public_key = self.keys[u].pk;
                o.amount = self.params.base_amount * (1 + s as u64) + u as u64;
                tx.add_to_slip(o);
            }
            tx.sign(&self.keys[0].sk);
            txs.push(tx);
        }
        let spec = BlockSpec {
            parent: [0; 32],
            ts: TS0,
            txs,
            gt: false,
            creator: 0,
        };
        let b = build_block(&self.builder, &self.keys, spec).expect("genesis");
        self.register(b, true, "genesis");
    }

    /// store in the reference tree and in the universe builder
    pub fn register(&mut self, b: Block, valid: bool, note: &str) -> usize {
        let parent_valid = if b.previous_block_hash == [0; 32] {
            true
        } else {
            self.by_hash
                .get(&b.previous_block_hash)
                .map(|i| self.recs[*i].valid)
                .unwrap_or(false)
        };
        let rec = rec_from_block(&b, valid && parent_valid, note);
        let idx = self.recs.len();
        self.by_hash.insert(rec.hash, idx);
        self.recs.push(rec);
        // universe mode: the builder only has to *store* blocks so that Block::create finds the
        // parent and grand-parent; it never runs fork choice or validation (a tampered block
        // must remain available as a parent)
        self.builder.bc.blocks.insert(b.hash, b);
        idx
    }

    pub fn genesis(&self) -> usize {
        0
    }

    pub fn path_to(&self, idx: usize) -> Vec<usize> {
        let mut v = vec![idx];
        let mut cur = idx;
        while self.recs[cur].parent != [0; 32] {
            match self.by_hash.get(&self.recs[cur].parent) {
                Some(p) => {
                    cur = *p;
                    v.push(cur);
                }
                None => break,
            }
        }
        v.reverse();
        v
    }

    pub fn ledger_at(&self, idx: usize) -> RefLedger {
        let mut l = RefLedger::default();
        for i in self.path_to(idx) {
            l.apply(&self.recs[i]);
        }
        l
    }

    pub fn next_ts_tag(&mut self) -> u64 {
        self.tx_counter += 1;
        self.tx_counter
    }

    /// a simple payment by `user` spending one of its unspent outputs at `ledger`
    pub fn payment(
        &mut self,
        ledger: &RefLedger,
        user: usize,
        to: usize,
        pick: usize,
        fee: u64,
        base_ts: u64,
    ) -> Option<(Transaction, SlipRef)> {
        let mine = ledger.unspent_of(&self.keys[user].pk);
        if mine.is_empty() {
            return None;
        }
        let inp = mine[pick % mine.len()].clone();
        let fee = fee.min(inp.amount.saturating_sub(1));
        let out_total = inp.amount - fee;
        let a = out_total / 2;
        let bamt = out_total - a;
        let mut outs = vec![];
        if a > 0 {
            outs.push((self.keys[to].pk, a));
        }
        outs.push((self.keys[user].pk, bamt));
        let tag = self.next_ts_tag();
        let tx = make_tx(&self.keys[user], &[inp.clone()], &outs, base_ts + tag, &tag.to_le_bytes());
        Some((tx, inp))
    }

    /// honest child of `parent` (universe mode): `ntx` payments drawn with `rng`, optional GT
    pub fn honest_child(
        &mut self,
        parent: usize,
        rng: &mut Rng,
        ntx: usize,
        gt: bool,
        dt: u64,
        note: &str,
    ) -> Result<usize, String> {
        let ledger = self.ledger_at(parent);
        let prec = self.recs[parent].clone();
        let ts = prec.ts + dt;
        let mut txs = vec![];
        let mut used: Vec<UtxoKey> = vec![];
        let n_users = self.params.n_users;
        for _ in 0..ntx.max(1) {
            for _try in 0..4 {
                let user = 1 + rng.usize_below(n_users);
                let to = 1 + rng.usize_below(n_users);
                let pick = rng.usize_below(64);
                let fee = if rng.chance(1, 2) { rng.below(5000) } else { 0 };
                if let Some((tx, inp)) = self.payment(&ledger, user, to, pick, fee, ts) {
                    if used.contains(&inp.key()) {
                        continue;
                    }
                    used.push(inp.key());
                    txs.push(tx);
                    break;
                }
            }
        }
        if txs.is_empty() {
            // zero-value tx so that the block has a transaction
            let tag = self.next_ts_tag();
            txs.push(make_tx(&self.keys[1], &[], &[(self.keys[1].pk, 0)], ts + tag, &tag.to_le_bytes()));
        }
        let spec = BlockSpec {
            parent: prec.hash,
            ts,
            txs,
            gt,
            creator: 0,
        };
        let b = build_block(&self.builder, &self.keys, spec)?;
        Ok(self.register(b, true, note))
    }

    /// child of `parent` that is invalid only because one of its transactions spends an output
    /// that is not spendable on that branch: "double-spend" = an output already spent by an
    /// ancestor block, "phantom-input" = an output that never existed (amount altered).
    /// None when the branch offers no such output.
    pub fn child_with_unspendable_input(&mut self, parent: usize, rng: &mut Rng, kind: &str, gt: bool, dt: u64) -> Result<Option<usize>, String> {
        let ledger = self.ledger_at(parent);
        let prec = self.recs[parent].clone();
        let ts = prec.ts + dt;
        let bad_input: Option<SlipRef> = match kind {
            "double-spend" => {
                let mut spent: Vec<SlipRef> = vec![];
                for i in self.path_to(parent) {
                    for t in &self.recs[i].txs {
                        if t.ttype == TransactionType::Normal {
                            for s in &t.inputs {
                                if s.amount > 0 && s.stype == SlipType::Normal && !ledger.utxo.contains_key(&s.key()) {
                                    spent.push(s.clone());
                                }
                            }
                        }
                    }
                }
                if spent.is_empty() {
                    None
                } else {
                    Some(spent[rng.usize_below(spent.len())].clone())
                }
            }
            _ => {
                let mut live: Vec<SlipRef> = ledger.utxo.values().filter(|s| s.stype == SlipType::Normal && s.amount > 10).cloned().collect();
                live.sort_by_key(|s| s.key());
                if live.is_empty() {
                    None
                } else {
                    let mut s = live[rng.usize_below(live.len())].clone();
                    s.amount += 1;
                    Some(s)
                }
            }
        };
        let bad_input = match bad_input {
            Some(s) => s,
            None => return Ok(None),
        };
        let owner = match self.keys.iter().find(|k| k.pk == bad_input.pk).cloned() {
            Some(k) => k,
            None => return Ok(None),
        };
        let tag = self.next_ts_tag();
        let bad_tx = make_tx(&owner, &[bad_input.clone()], &[(owner.pk, bad_input.amount)], ts + tag, &tag.to_le_bytes());
        let mut txs = vec![bad_tx];
        let n_users = self.params.n_users;
        let user = 1 + rng.usize_below(n_users);
        if let Some((tx, inp)) = self.payment(&ledger, user, 1 + rng.usize_below(n_users), rng.usize_below(64), 0, ts) {
            if inp.key() != bad_input.key() {
                txs.push(tx);
            }
        }
        let spec = BlockSpec { parent: prec.hash, ts, txs, gt, creator: 0 };
        let b = build_block(&self.builder, &self.keys, spec)?;
        Ok(Some(self.register(b, false, &format!("invalid:{}", kind))))
    }

    pub fn block(&self, idx: usize) -> Block {
        let mut b = Block::deserialize_from_net(&self.recs[idx].bytes).expect("own block decodes");
        b.generate().expect("own block generates");
        b
    }
}

// ---------------------------------------------------------------------------------------------
// block-level edits that only validation notices (block stays decodable and self-consistent)

pub const BLOCK_INVALIDITY_KINDS: &[&str] = &[
    "burnfee",
    "difficulty",
    "treasury",
    "graveyard",
    "unpaid",
    "signature",
    "no-tx",
    "timestamp",
    "total-fees",
    "fee-tx",
    "avg-fee",
];

/// invalid only through a transaction whose input is not spendable (World::child_with_unspendable_input)
pub const TX_INVALIDITY_KINDS: &[&str] = &["double-spend", "phantom-input"];

/// returns None when the edit does not apply to this block (e.g. no fee transaction)
pub fn tamper_block(b: &Block, kind: &str, creator: &Key) -> Option<Block> {
    let mut b = b.clone();
    match kind {
        "burnfee" => {
            b.burnfee += 1;
            reseal(&mut b, creator, false);
        }
        "difficulty" => {
            b.difficulty += 1;
            reseal(&mut b, creator, false);
        }
        "treasury" => {
            b.treasury += 1;
            reseal(&mut b, creator, false);
        }
        "graveyard" => {
            b.graveyard += 1;
            reseal(&mut b, creator, false);
        }
        "unpaid" => {
            b.previous_block_unpaid += 1;
            reseal(&mut b, creator, false);
        }
        "avg-fee" => {
            b.avg_total_fees += 1;
            reseal(&mut b, creator, false);
        }
        "total-fees" => {
            b.total_fees += 1;
            b.total_fees_new += 1;
            reseal(&mut b, creator, false);
        }
        "signature" => {
            b.signature[5] ^= 0x40;
            b.created_hashmap_of_slips_spent_this_block = false;
            b.slips_spent_this_block.clear();
            let _ = b.generate();
        }
        "no-tx" => {
            b.transactions.clear();
            reseal(&mut b, creator, true);
        }
        "timestamp" => {
            // not later than the parent: burn fee / work requirement become unsatisfiable
            b.timestamp = b.timestamp.saturating_sub(10_000_000);
            reseal(&mut b, creator, false);
        }
        "fee-tx" => {
            let i = b
                .transactions
                .iter()
                .position(|t| t.transaction_type == TransactionType::Fee)?;
            if b.transactions[i].to.is_empty() {
                return None;
            }
            b.transactions[i].to[0].amount += 1;
            reseal(&mut b, creator, true);
        }
        _ => return None,
    }
    Some(b)
}

// ---------------------------------------------------------------------------------------------
// Chain: a real node that builds on its own tip (producer == first validator). Needed whenever
// the chain is deeper than the genesis period, because rebroadcasts depend on that branch's
// index, UTXO set and block files.

pub struct Chain {
    pub seed: u64,
    pub params: Params,
    pub cfg: SimConfig,
    pub keys: Vec<Key>,
    pub node: Node,
    pub recs: Vec<BlockRec>,
    pub ledger: RefLedger,
    pub tx_counter: u64,
    pub genesis_supply: u128,
}

impl Chain {
    pub fn new(seed: u64, params: Params, prune_after: u64) -> Result<Chain, String> {
        let mut cfg = SimConfig::new(params.genesis_period, params.heartbeat);
        cfg.consensus.prune_after_blocks = prune_after;
        let n_keys = params.n_users + 3;
        let keys: Vec<Key> = (0..n_keys as u64).map(|i| derive_key(seed, i)).collect();
        let node = Node::new(&cfg, &keys[0]);
        let mut c = Chain {
            seed,
            params,
            cfg,
            keys,
            node,
            recs: vec![],
            ledger: RefLedger::default(),
            tx_counter: 0,
            genesis_supply: 0,
        };
        let mut txs = vec![];
        for u in 1..=c.params.n_users {
            let mut tx = Transaction::default();
            tx.transaction_type = TransactionType::Issuance;
            tx.timestamp = TS0 + u as u64;
            for s in 0..c.params.slips_per_user {
                let mut o = Slip::default();
                o.public_key = c.keys[u].pk;
                o.amount = c.params.base_amount * (1 + s as u64) + u as u64;
                tx.add_to_slip(o);
            }
            tx.sign(&c.keys[0].sk);
            txs.push(tx);
        }
        c.extend_at(txs, false, TS0)?;
        c.genesis_supply = c.ledger.total();
        Ok(c)
    }

    pub fn tip_rec(&self) -> &BlockRec {
        self.recs.last().unwrap()
    }

    fn extend_at(&mut self, txs: Vec<Transaction>, gt: bool, ts: u64) -> Result<usize, String> {
        let parent = self.recs.last().map(|r| r.hash).unwrap_or([0; 32]);
        let b = build_block(&self.node, &self.keys, BlockSpec { parent, ts, txs, gt, creator: 0 })?;
        let rec = rec_from_block(&b, true, "chain");
        let n_atr = b.transactions.iter().filter(|t| t.transaction_type == TransactionType::ATR).count();
        let payout_atr = b.total_payout_atr;
        let res = self.node.add_block(b);
        match outcome_of(&res) {
            AddOutcome::Added { longest: true } => {}
            other => {
                // classification for C07: producer and validator disagree
                let _ = payout_atr;
                let class = if atr_multiplier(&self.node.bc, self.params.genesis_period) > 1 { "atr-treasury-multiplier-above-1" } else if n_atr > 0 { "atr-multiplier-1" } else { "no-atr" };
                return Err(format!("REFUSED[{}] own block id {} refused by its producer: {:?} (rebroadcasts {}, total_payout_atr {})", class, rec.id, other, n_atr, payout_atr));
            }
        }
        self.ledger.apply(&rec);
        self.recs.push(rec);
        Ok(self.recs.len() - 1)
    }

    /// a fork at the next height: a sibling S (never part of this chain object) is built on the tip and
    /// reaches the node FIRST, then the block W that this chain continues with is built on the same
    /// parent and stored as a non-longest fork. The next `extend` builds on W and makes the node
    /// reorganise away S. Returns the index of W.
    pub fn extend_with_sibling_first(&mut self, txs_s: Vec<Transaction>, txs_w: Vec<Transaction>, gt: bool, dt: u64) -> Result<usize, String> {
        let parent = self.tip_rec().hash;
        let ts = self.tip_rec().ts + dt;
        let s = build_block(&self.node, &self.keys, BlockSpec { parent, ts: ts + 7, txs: txs_s, gt, creator: 0 })?;
        match outcome_of(&self.node.add_block(s)) {
            AddOutcome::Added { longest: true } => {}
            other => return Err(format!("REFUSED[sibling] {:?}", other)),
        }
        let b = build_block(&self.node, &self.keys, BlockSpec { parent, ts, txs: txs_w, gt, creator: 0 })?;
        let rec = rec_from_block(&b, true, "chain-after-sibling");
        match outcome_of(&self.node.add_block(b)) {
            AddOutcome::Added { longest: false } => {}
            other => return Err(format!("REFUSED[fork-block] {:?}", other)),
        }
        self.ledger.apply(&rec);
        self.recs.push(rec);
        Ok(self.recs.len() - 1)
    }

    /// build on the own tip with the real Block::create and add it to the own node
    pub fn extend(&mut self, txs: Vec<Transaction>, gt: bool, dt: u64) -> Result<usize, String> {
        let ts = self.tip_rec().ts + dt;
        self.extend_at(txs, gt, ts)
    }

    /// unspent outputs of `pk` that are still inside the retention window for the next block
    pub fn spendable(&self, pk: &SaitoPublicKey) -> Vec<SlipRef> {
        let next_id = self.tip_rec().id + 1;
        let gp = self.params.genesis_period;
        self.ledger
            .unspent_of(pk)
            .into_iter()
            .filter(|s| s.block_id + gp >= next_id && s.stype != SlipType::Bound)
            .collect()
    }

    pub fn tag(&mut self) -> u64 {
        self.tx_counter += 1;
        self.tx_counter
    }

    /// payment by `user` to `to` with a fee; optional routing path user -> ... -> creator
    pub fn payment(&mut self, user: usize, to: usize, pick: usize, fee: u64, hops: usize, avoid: &[UtxoKey]) -> Option<(Transaction, SlipRef)> {
        let mine: Vec<SlipRef> = self.spendable(&self.keys[user].pk).into_iter().filter(|s| !avoid.contains(&s.key())).collect();
        if mine.is_empty() {
            return None;
        }
        let inp = mine[pick % mine.len()].clone();
        let fee = fee.min(inp.amount.saturating_sub(1));
        let out_total = inp.amount - fee;
        let a = out_total / 3;
        let mut outs = vec![];
        if a > 0 {
            outs.push((self.keys[to].pk, a));
        }
        outs.push((self.keys[user].pk, out_total - a));
        let tag = self.tag();
        let ts = self.tip_rec().ts + tag;
        let mut tx = make_tx(&self.keys[user], &[inp.clone()], &outs, ts, &tag.to_le_bytes());
        // routing path: user -> (router) -> creator
        if hops >= 1 {
            let router = &self.keys[self.params.n_users + 2];
            if hops >= 2 {
                tx.add_hop(&self.keys[user].sk, &self.keys[user].pk, &router.pk);
                tx.add_hop(&router.sk, &router.pk, &self.keys[0].pk);
            } else {
                tx.add_hop(&self.keys[user].sk, &self.keys[user].pk, &self.keys[0].pk);
            }
        }
        Some((tx, inp))
    }

    /// a fresh chain object whose node has replayed recs[0..=upto] (for forks deeper than the window)
    pub fn fork_at(&self, upto: usize) -> Result<Chain, String> {
        let node = Node::new(&self.cfg, &self.keys[0]);
        let mut c = Chain {
            seed: self.seed,
            params: self.params.clone(),
            cfg: self.cfg.clone(),
            keys: self.keys.clone(),
            node,
            recs: vec![],
            ledger: RefLedger::default(),
            tx_counter: self.tx_counter + 1_000_000,
            genesis_supply: self.genesis_supply,
        };
        for rec in &self.recs[..=upto] {
            let res = c.node.add_block_bytes(&rec.bytes).ok_or("decode")?;
            if outcome_of(&res) != (AddOutcome::Added { longest: true }) {
                return Err(format!("replay refused block id {}", rec.id));
            }
            c.ledger.apply(rec);
            c.recs.push(rec.clone());
        }
        Ok(c)
    }
}

/// the conservation equation of C02 evaluated on a node, in u128; returns (lhs, parts)
pub fn node_supply(n: &Node, genesis_period: u64) -> Option<(u128, [u128; 5])> {
    let tip = n.bc.get_latest_block()?;
    let mut utxo: u128 = 0;
    for (k, v) in n.bc.utxoset.iter() {
        if !*v {
            continue;
        }
        let block_id = u64::from_be_bytes(k[33..41].try_into().unwrap());
        let amount = u64::from_be_bytes(k[50..58].try_into().unwrap());
        let stype = k[58];
        if stype == 9 {
            continue; // Bound
        }
        if block_id < tip.id.saturating_sub(genesis_period) {
            continue;
        }
        utxo += amount as u128;
    }
    let parts = [
        utxo,
        tip.treasury as u128,
        tip.graveyard as u128,
        tip.previous_block_unpaid as u128,
        tip.total_fees as u128,
    ];
    Some((parts.iter().sum(), parts))
}

pub fn ledger_supply(l: &RefLedger, tip_id: u64, genesis_period: u64) -> u128 {
    l.utxo
        .values()
        .filter(|s| s.stype != SlipType::Bound && s.block_id >= tip_id.saturating_sub(genesis_period))
        .map(|s| s.amount as u128)
        .sum()
}

/// the rebroadcast payout multiplier the *next* block will use (1 + treasury / (gp * avg rebroadcast)),
/// read from the tip header; > 1 is the situation in which producer and validator are known to disagree
pub fn atr_multiplier(bc: &Blockchain, genesis_period: u64) -> u64 {
    match bc.get_latest_block() {
        Some(t) => {
            let staked = (genesis_period as u128) * (t.avg_nolan_rebroadcast_per_block as u128);
            if staked == 0 {
                1
            } else {
                1 + (t.treasury as u128 / staked) as u64
            }
        }
        None => 1,
    }
}
