//! L2 — full nodes (routing / consensus / verification / mining processors over shared locks),
//! SimNet (connections, fetch server, external endpoints), event-granularity scheduler.
//!
//! Handlers run to completion (one event per processor at a time, exactly as run_thread does);
//! the seeded scheduler decides which processor of which node takes which pending item next,
//! which message is delivered next, when timers tick, when fetches complete or fail.

use std::collections::{BTreeMap, VecDeque};
use std::sync::atomic::{AtomicU64, Ordering};
use std::sync::{Arc, Mutex};
use std::time::Duration;

use saito_core::core::consensus::block::{Block, BlockType};
use saito_core::core::consensus::blockchain::Blockchain;
use saito_core::core::consensus::blockchain_sync_state::BlockchainSyncState;
use saito_core::core::consensus::mempool::Mempool;
use saito_core::core::consensus::peers::peer_collection::PeerCollection;
use saito_core::core::consensus::wallet::Wallet;
use saito_core::core::consensus_thread::{ConsensusEvent, ConsensusStats, ConsensusThread};
use saito_core::core::defs::{PrintForLog, SaitoHash, SaitoPublicKey, StatVariable, STAT_BIN_COUNT};
use saito_core::core::io::network::{Network, PeerDisconnectType};
use saito_core::core::io::network_event::NetworkEvent;
use saito_core::core::io::storage::Storage;
use saito_core::core::mining_thread::{MiningEvent, MiningThread};
use saito_core::core::process::process_event::ProcessEvent;
use saito_core::core::routing_thread::{RoutingEvent, RoutingStats, RoutingThread};
use saito_core::core::util::configuration::{Configuration, PeerConfig};
use saito_core::core::verification_thread::{VerificationThread, VerifyRequest};
use tokio::sync::mpsc::{channel, Receiver};
use saito_core::core::util::verif::RwLock;

use crate::rng::Rng;
use crate::simcfg::{SimClock, SimConfig};
use crate::simio::{DiskState, OutMsg, Outbox, SimIo, BLOCK_DIR};
use crate::util::{block_on, guarded, PanicReport};
use crate::world::Key;

pub const P_ROUTING: usize = 0;
pub const P_CONSENSUS: usize = 1;
pub const P_VERIFICATION: usize = 2;
pub const P_MINING: usize = 3;

pub struct FullNode {
    pub id: usize,
    pub name: String,
    pub key: Key,
    pub cfg_lock: Arc<RwLock<dyn Configuration + Send + Sync>>,
    pub cfg_typed: SimConfig,
    pub blockchain_lock: Arc<RwLock<Blockchain>>,
    pub mempool_lock: Arc<RwLock<Mempool>>,
    pub wallet_lock: Arc<RwLock<Wallet>>,
    pub peer_lock: Arc<RwLock<PeerCollection>>,
    pub routing: RoutingThread,
    pub consensus: ConsensusThread,
    pub verification: VerificationThread,
    pub mining: MiningThread,
    pub rx_consensus: Receiver<ConsensusEvent>,
    pub rx_routing: Receiver<RoutingEvent>,
    pub rx_verification: Receiver<VerifyRequest>,
    pub rx_mining: Receiver<MiningEvent>,
    pub rx_stat: Receiver<String>,
    pub net_in: VecDeque<NetworkEvent>,
    /// items taken off the tokio channels (tokio 1.37's Receiver::is_empty/len misreport at block
    /// boundaries, so the scheduler keeps its own queues; FIFO order per channel is preserved)
    pub q_consensus: VecDeque<ConsensusEvent>,
    pub q_routing: VecDeque<RoutingEvent>,
    pub q_verification: VecDeque<VerifyRequest>,
    pub q_mining: VecDeque<MiningEvent>,
    pub disk: Arc<Mutex<DiskState>>,
    pub out: Arc<Mutex<Outbox>>,
    pub clock: SimClock,
    pub last_tick: [u64; 4],
    pub dead: Option<PanicReport>,
    pub url: String,
}

pub struct NodeOpts {
    pub produce_blocks_by_timer: bool,
    pub mining_enabled: bool,
    pub mining_iterations: u32,
    pub chan_cap: usize,
    pub delete_old_blocks: bool,
    pub batch_size: usize,
}

impl Default for NodeOpts {
    fn default() -> Self {
        NodeOpts {
            produce_blocks_by_timer: false,
            mining_enabled: false,
            mining_iterations: 50,
            chan_cap: 100_000,
            delete_old_blocks: true,
            batch_size: 10,
        }
    }
}

impl FullNode {
    pub fn new(id: usize, key: &Key, cfg: &SimConfig, disk: Arc<Mutex<DiskState>>, global_clock: Arc<AtomicU64>, opts: &NodeOpts) -> FullNode {
        let out = Arc::new(Mutex::new(Outbox::default()));
        let clock = SimClock::new(global_clock);
        let timer = clock.timer();
        let mut cfg = cfg.clone();
        cfg.fetch_url = format!("http://node{}", id);
        let cfg_lock: Arc<RwLock<dyn Configuration + Send + Sync>> = Arc::new(RwLock::new(cfg.clone()));
        let mut wallet = Wallet::new(key.sk, key.pk);
        // startup sequence of saito-rust: Wallet::load first
        let io = SimIo::new(disk.clone(), out.clone());
        block_on(Wallet::load(&mut wallet, &io));
        let wallet_lock = Arc::new(RwLock::new(wallet));
        let blockchain_lock = Arc::new(RwLock::new(Blockchain::new(
            wallet_lock.clone(),
            cfg.consensus.genesis_period,
            cfg.consensus.default_social_stake,
            cfg.consensus.default_social_stake_period,
        )));
        let mempool_lock = Arc::new(RwLock::new(Mempool::new(wallet_lock.clone())));
        let peer_lock = Arc::new(RwLock::new(PeerCollection::default()));
        let (tx_consensus, rx_consensus) = channel::<ConsensusEvent>(opts.chan_cap);
        let (tx_routing, rx_routing) = channel::<RoutingEvent>(opts.chan_cap);
        let (tx_verification, rx_verification) = channel::<VerifyRequest>(opts.chan_cap);
        let (tx_mining, rx_mining) = channel::<MiningEvent>(opts.chan_cap);
        let (tx_stat, rx_stat) = channel::<String>(1_000_000);
        let mk_io = || -> Box<SimIo> { Box::new(SimIo::new(disk.clone(), out.clone())) };
        let mk_net = || Network::new(mk_io(), peer_lock.clone(), wallet_lock.clone(), cfg_lock.clone(), timer.clone());
        let routing = RoutingThread {
            blockchain_lock: blockchain_lock.clone(),
            mempool_lock: mempool_lock.clone(),
            sender_to_consensus: tx_consensus.clone(),
            sender_to_miner: tx_mining.clone(),
            config_lock: cfg_lock.clone(),
            timer: timer.clone(),
            wallet_lock: wallet_lock.clone(),
            network: mk_net(),
            storage: Storage::new(mk_io()),
            reconnection_timer: 0,
            peer_removal_timer: 0,
            peer_file_write_timer: 0,
            last_emitted_block_fetch_count: 0,
            stats: RoutingStats::new(tx_stat.clone()),
            senders_to_verification: vec![tx_verification.clone()],
            last_verification_thread_index: 0,
            stat_sender: tx_stat.clone(),
            blockchain_sync_state: BlockchainSyncState::new(opts.batch_size),
        };
        let consensus = ConsensusThread {
            mempool_lock: mempool_lock.clone(),
            blockchain_lock: blockchain_lock.clone(),
            wallet_lock: wallet_lock.clone(),
            generate_genesis_block: false,
            sender_to_router: tx_routing.clone(),
            sender_to_miner: tx_mining.clone(),
            block_producing_timer: 0,
            timer: timer.clone(),
            network: mk_net(),
            storage: Storage::new(mk_io()),
            stats: ConsensusStats::new(tx_stat.clone()),
            txs_for_mempool: vec![],
            stat_sender: tx_stat.clone(),
            config_lock: cfg_lock.clone(),
            produce_blocks_by_timer: opts.produce_blocks_by_timer,
            delete_old_blocks: opts.delete_old_blocks,
        };
        let sv = |n: &str| StatVariable::new(n.to_string(), STAT_BIN_COUNT, tx_stat.clone());
        let verification = VerificationThread {
            sender_to_consensus: tx_consensus.clone(),
            blockchain_lock: blockchain_lock.clone(),
            peer_lock: peer_lock.clone(),
            wallet_lock: wallet_lock.clone(),
            processed_txs: sv("v::txs"),
            processed_blocks: sv("v::blocks"),
            processed_msgs: sv("v::msgs"),
            invalid_txs: sv("v::invalid"),
            stat_sender: tx_stat.clone(),
        };
        let mining = MiningThread {
            wallet_lock: wallet_lock.clone(),
            sender_to_mempool: tx_consensus.clone(),
            timer: timer.clone(),
            miner_active: false,
            target: [0; 32],
            target_id: 0,
            difficulty: 0,
            public_key: [0; 33],
            mined_golden_tickets: 0,
            stat_sender: tx_stat.clone(),
            config_lock: cfg_lock.clone(),
            enabled: opts.mining_enabled,
            mining_iterations: opts.mining_iterations,
            mining_start: 0,
        };
        FullNode {
            id,
            name: format!("node{}", id),
            key: key.clone(),
            cfg_lock,
            cfg_typed: cfg.clone(),
            blockchain_lock,
            mempool_lock,
            wallet_lock,
            peer_lock,
            routing,
            consensus,
            verification,
            mining,
            rx_consensus,
            rx_routing,
            rx_verification,
            rx_mining,
            rx_stat,
            net_in: VecDeque::new(),
            q_consensus: VecDeque::new(),
            q_routing: VecDeque::new(),
            q_verification: VecDeque::new(),
            q_mining: VecDeque::new(),
            disk,
            out,
            clock,
            last_tick: [0; 4],
            dead: None,
            url: cfg.fetch_url.clone(),
        }
    }

    /// on_init of every processor (the start of run_thread); panics are reported by the caller
    pub fn init(&mut self, mining_enabled: bool) {
        block_on(self.consensus.on_init());
        block_on(self.routing.on_init());
        block_on(self.verification.on_init());
        block_on(self.mining.on_init());
        self.mining.enabled = mining_enabled && self.mining.enabled;
        let now = self.clock.now();
        self.last_tick = [now; 4];
    }

    pub fn tip(&self) -> (u64, SaitoHash) {
        let bc = block_on(self.blockchain_lock.read());
        (bc.get_latest_block_id(), bc.get_latest_block_hash())
    }

    pub fn drain_stats(&mut self) {
        while self.rx_stat.try_recv().is_ok() {}
    }

    /// move everything sent on the inter-processor channels into the scheduler's queues
    pub fn pump(&mut self) {
        while let Ok(e) = self.rx_consensus.try_recv() {
            self.q_consensus.push_back(e);
        }
        while let Ok(e) = self.rx_routing.try_recv() {
            self.q_routing.push_back(e);
        }
        while let Ok(e) = self.rx_verification.try_recv() {
            self.q_verification.push_back(e);
        }
        while let Ok(e) = self.rx_mining.try_recv() {
            self.q_mining.push_back(e);
        }
        while self.rx_stat.try_recv().is_ok() {}
    }
}

// ---------------------------------------------------------------------------------------------

#[derive(Clone, Debug, PartialEq, Eq)]
pub enum Endpoint {
    /// (node id, peer index at that node)
    Node(usize, u64),
    /// external party driven by the scenario (attacker or scripted peer)
    External(usize),
}

#[derive(Debug)]
pub struct Conn {
    pub a: Endpoint,
    pub b: Endpoint,
    pub open: bool,
    pub a_to_b: VecDeque<Vec<u8>>,
    pub b_to_a: VecDeque<Vec<u8>>,
}

#[derive(Clone, Debug)]
pub struct PendingFetch {
    pub node: usize,
    pub peer: u64,
    pub hash: SaitoHash,
    pub id: u64,
    pub url: String,
}

#[derive(Clone, Debug, PartialEq, Eq)]
pub enum Action {
    /// processor takes the next item of its own channel
    Own(usize, usize),
    /// routing takes the next network event
    NetIn(usize),
    /// deliver the head message of connection `c` in direction a->b (true) or b->a (false)
    Deliver(usize, bool),
    /// complete pending fetch i (success if the block is served) / fail it
    FetchDone(usize),
    FetchFail(usize),
}

#[derive(Default, Clone, Debug)]
pub struct NetFaults {
    /// per mille
    pub drop_pm: u64,
    pub dup_pm: u64,
    pub reorder_pm: u64,
    pub fetch_fail_pm: u64,
}

pub struct Sim {
    pub nodes: Vec<FullNode>,
    pub conns: Vec<Conn>,
    pub fetches: Vec<PendingFetch>,
    pub clock: Arc<AtomicU64>,
    pub rng: Rng,
    pub faults: NetFaults,
    pub fired: BTreeMap<String, u64>,
    pub ext_inbox: Vec<(usize, usize, Vec<u8>)>, // (ext id, conn id, bytes)
    /// blocks an external endpoint serves on fetch: hash -> bytes
    pub ext_blocks: BTreeMap<SaitoHash, Vec<u8>>,
    pub fetch_log: Vec<PendingFetch>,
    pub steps: u64,
    pub schedule_digest: crate::util::Digest,
    pub panics: Vec<(usize, &'static str, PanicReport)>,
    pub delivered_log: Vec<(usize, bool, Vec<u8>)>,
    pub log_deliveries: bool,
    pub pending_connects: Vec<(usize, u64)>,
}

impl Sim {
    pub fn new(seed: u64, start_ms: u64) -> Sim {
        Sim {
            nodes: vec![],
            conns: vec![],
            fetches: vec![],
            clock: Arc::new(AtomicU64::new(start_ms)),
            rng: Rng::new(seed),
            faults: NetFaults::default(),
            fired: BTreeMap::new(),
            ext_inbox: vec![],
            ext_blocks: BTreeMap::new(),
            fetch_log: vec![],
            steps: 0,
            schedule_digest: crate::util::Digest::new(),
            panics: vec![],
            delivered_log: vec![],
            log_deliveries: false,
            pending_connects: vec![],
        }
    }

    pub fn now(&self) -> u64 {
        self.clock.load(Ordering::Relaxed)
    }
    pub fn advance(&mut self, ms: u64) {
        self.clock.fetch_add(ms, Ordering::Relaxed);
    }
    fn fire(&mut self, k: &str) {
        *self.fired.entry(k.to_string()).or_insert(0) += 1;
    }

    pub fn add_node(&mut self, key: &Key, cfg: &SimConfig, opts: &NodeOpts) -> usize {
        let id = self.nodes.len();
        let disk = Arc::new(Mutex::new(DiskState::default()));
        let n = FullNode::new(id, key, cfg, disk, self.clock.clone(), opts);
        self.nodes.push(n);
        id
    }

    /// replace node `id` by a brand-new instance over the same (or a given) disk: restart
    pub fn restart_node(&mut self, id: usize, cfg: &SimConfig, opts: &NodeOpts, disk: Option<Arc<Mutex<DiskState>>>) {
        let key = self.nodes[id].key.clone();
        let disk = disk.unwrap_or_else(|| self.nodes[id].disk.clone());
        // connections of the old process are gone
        for c in self.conns.iter_mut() {
            let touches = matches!(&c.a, Endpoint::Node(n, _) if *n == id) || matches!(&c.b, Endpoint::Node(n, _) if *n == id);
            if touches {
                c.open = false;
            }
        }
        self.fetches.retain(|f| f.node != id);
        let n = FullNode::new(id, &key, cfg, disk, self.clock.clone(), opts);
        self.nodes[id] = n;
    }

    /// run `f` on node `n` guarded; a panic kills the node (as the production hook exits the process)
    pub fn guard_node<T>(&mut self, n: usize, what: &'static str, f: impl FnOnce(&mut FullNode) -> T) -> Option<T> {
        if self.nodes[n].dead.is_some() {
            return None;
        }
        let node = &mut self.nodes[n];
        match guarded(|| f(node)) {
            Ok(v) => Some(v),
            Err(p) => {
                self.nodes[n].dead = Some(p.clone());
                self.panics.push((n, what, p));
                None
            }
        }
    }

    pub fn init_node(&mut self, n: usize, mining: bool) -> bool {
        let ok = self.guard_node(n, "on_init", |node| node.init(mining)).is_some();
        self.flush_outbox(n);
        ok
    }

    // -- connections ---------------------------------------------------------------------------

    /// an incoming connection at node `server` from node `client` (client has `server` as static peer
    /// with index `client_peer_index`); mirrors network_controller: index assignment under the
    /// peers write lock, then PeerConnectionResult on both sides
    pub fn connect_nodes(&mut self, client: usize, client_peer_index: u64, server: usize) -> usize {
        let sidx = {
            let mut peers = block_on(self.nodes[server].peer_lock.write());
            peers.peer_counter.get_next_index()
        };
        self.conns.push(Conn {
            a: Endpoint::Node(client, client_peer_index),
            b: Endpoint::Node(server, sidx),
            open: true,
            a_to_b: VecDeque::new(),
            b_to_a: VecDeque::new(),
        });
        self.nodes[server].net_in.push_back(NetworkEvent::PeerConnectionResult { result: Ok((sidx, Some("10.0.0.1".into()))) });
        self.nodes[client].net_in.push_back(NetworkEvent::PeerConnectionResult { result: Ok((client_peer_index, Some("10.0.0.2".into()))) });
        self.conns.len() - 1
    }

    /// an incoming connection at node `server` from an external party
    pub fn connect_external(&mut self, ext: usize, server: usize) -> (usize, u64) {
        let sidx = {
            let mut peers = block_on(self.nodes[server].peer_lock.write());
            peers.peer_counter.get_next_index()
        };
        self.conns.push(Conn {
            a: Endpoint::External(ext),
            b: Endpoint::Node(server, sidx),
            open: true,
            a_to_b: VecDeque::new(),
            b_to_a: VecDeque::new(),
        });
        self.nodes[server].net_in.push_back(NetworkEvent::PeerConnectionResult { result: Ok((sidx, Some("10.6.6.6".into()))) });
        (self.conns.len() - 1, sidx)
    }

    /// node `client` dials out to an external party (static peer `client_peer_index`)
    pub fn connect_out_external(&mut self, client: usize, client_peer_index: u64, ext: usize) -> usize {
        self.conns.push(Conn {
            a: Endpoint::Node(client, client_peer_index),
            b: Endpoint::External(ext),
            open: true,
            a_to_b: VecDeque::new(),
            b_to_a: VecDeque::new(),
        });
        self.nodes[client].net_in.push_back(NetworkEvent::PeerConnectionResult { result: Ok((client_peer_index, Some("10.7.7.7".into()))) });
        self.conns.len() - 1
    }

    pub fn ext_send(&mut self, conn: usize, bytes: Vec<u8>) {
        if !self.conns[conn].open {
            return;
        }
        if matches!(self.conns[conn].a, Endpoint::External(_)) {
            self.conns[conn].a_to_b.push_back(bytes);
        } else {
            self.conns[conn].b_to_a.push_back(bytes);
        }
    }

    pub fn close_conn(&mut self, c: usize) {
        if !self.conns[c].open {
            return;
        }
        self.conns[c].open = false;
        self.conns[c].a_to_b.clear();
        self.conns[c].b_to_a.clear();
        for e in [self.conns[c].a.clone(), self.conns[c].b.clone()] {
            if let Endpoint::Node(n, idx) = e {
                self.nodes[n].net_in.push_back(NetworkEvent::PeerDisconnected { peer_index: idx, disconnect_type: PeerDisconnectType::InternalDisconnect });
            }
        }
    }

    fn conn_of(&self, node: usize, peer: u64) -> Option<(usize, bool)> {
        // returns (conn id, node is side a)
        for (i, c) in self.conns.iter().enumerate().rev() {
            if !c.open {
                continue;
            }
            if c.a == Endpoint::Node(node, peer) {
                return Some((i, true));
            }
            if c.b == Endpoint::Node(node, peer) {
                return Some((i, false));
            }
        }
        None
    }

    /// move everything the node emitted through SimIo into connection queues / pending fetches
    pub fn flush_outbox(&mut self, n: usize) {
        self.nodes[n].pump();
        let msgs: Vec<OutMsg> = {
            let mut o = self.nodes[n].out.lock().unwrap();
            o.msgs.drain(..).collect()
        };
        for m in msgs {
            match m {
                OutMsg::Send { peer, buf } => self.enqueue(n, peer, buf),
                OutMsg::SendAll { buf, excluded } => {
                    let targets: Vec<u64> = self
                        .conns
                        .iter()
                        .filter(|c| c.open)
                        .filter_map(|c| match (&c.a, &c.b) {
                            (Endpoint::Node(x, p), _) if *x == n => Some(*p),
                            (_, Endpoint::Node(x, p)) if *x == n => Some(*p),
                            _ => None,
                        })
                        .filter(|p| !excluded.contains(p))
                        .collect();
                    for p in targets {
                        self.enqueue(n, p, buf.clone());
                    }
                }
                OutMsg::Connect { url: _, peer } => {
                    // resolved by the scenario: static peer index -> target; default: no listener
                    self.pending_connects.push((n, peer));
                }
                OutMsg::Disconnect { peer } => {
                    if let Some((c, _)) = self.conn_of(n, peer) {
                        self.close_conn(c);
                    } else {
                        // socket already gone: the controller still reports the disconnect
                        self.nodes[n].net_in.push_back(NetworkEvent::PeerDisconnected { peer_index: peer, disconnect_type: PeerDisconnectType::InternalDisconnect });
                    }
                }
                OutMsg::Fetch { hash, peer, url, id } => {
                    let f = PendingFetch { node: n, peer, hash, id, url };
                    self.fetch_log.push(f.clone());
                    self.fetches.push(f);
                }
            }
        }
    }

    fn enqueue(&mut self, n: usize, peer: u64, buf: Vec<u8>) {
        if let Some((c, is_a)) = self.conn_of(n, peer) {
            if self.faults.drop_pm > 0 && self.rng.chance(self.faults.drop_pm, 1000) {
                self.fire("message_dropped");
                return;
            }
            let dup = self.faults.dup_pm > 0 && self.rng.chance(self.faults.dup_pm, 1000);
            let q = if is_a { &mut self.conns[c].a_to_b } else { &mut self.conns[c].b_to_a };
            q.push_back(buf.clone());
            if dup {
                q.push_back(buf);
                self.fire("message_duplicated");
            }
        }
    }

    // -- scheduler -----------------------------------------------------------------------------

    pub fn enabled(&self) -> Vec<Action> {
        let mut v = vec![];
        for (i, n) in self.nodes.iter().enumerate() {
            if n.dead.is_some() {
                continue;
            }
            if !n.q_routing.is_empty() && n.routing.is_ready_to_process() {
                v.push(Action::Own(i, P_ROUTING));
            }
            if !n.q_consensus.is_empty() && n.consensus.is_ready_to_process() {
                v.push(Action::Own(i, P_CONSENSUS));
            }
            if !n.q_verification.is_empty() && n.verification.is_ready_to_process() {
                v.push(Action::Own(i, P_VERIFICATION));
            }
            if !n.q_mining.is_empty() && n.mining.is_ready_to_process() {
                v.push(Action::Own(i, P_MINING));
            }
            if !n.net_in.is_empty() && n.routing.is_ready_to_process() {
                v.push(Action::NetIn(i));
            }
        }
        for (ci, c) in self.conns.iter().enumerate() {
            if !c.open {
                continue;
            }
            if !c.a_to_b.is_empty() {
                v.push(Action::Deliver(ci, true));
            }
            if !c.b_to_a.is_empty() {
                v.push(Action::Deliver(ci, false));
            }
        }
        for (fi, _) in self.fetches.iter().enumerate() {
            v.push(Action::FetchDone(fi));
        }
        v
    }

    pub fn quiet(&self) -> bool {
        self.enabled().is_empty()
    }

    pub fn step(&mut self) -> bool {
        let acts = self.enabled();
        if acts.is_empty() {
            return false;
        }
        let mut a = acts[self.rng.usize_below(acts.len())].clone();
        if let Action::FetchDone(i) = a {
            if self.faults.fetch_fail_pm > 0 && self.rng.chance(self.faults.fetch_fail_pm, 1000) {
                a = Action::FetchFail(i);
            }
        }
        self.apply(a);
        true
    }

    pub fn apply(&mut self, a: Action) {
        self.steps += 1;
        match &a {
            Action::Own(n, p) => {
                self.schedule_digest.u64(1).u64(*n as u64).u64(*p as u64);
            }
            Action::NetIn(n) => {
                self.schedule_digest.u64(2).u64(*n as u64);
            }
            Action::Deliver(c, d) => {
                self.schedule_digest.u64(3).u64(*c as u64).u64(*d as u64);
            }
            Action::FetchDone(_) => {
                self.schedule_digest.u64(4);
            }
            Action::FetchFail(_) => {
                self.schedule_digest.u64(5);
            }
        }
        match a {
            Action::Own(n, p) => {
                match p {
                    P_ROUTING => {
                        self.guard_node(n, "routing.process_event", |node| {
                            if let Some(e) = node.q_routing.pop_front() {
                                block_on(node.routing.process_event(e));
                            }
                        });
                    }
                    P_CONSENSUS => {
                        self.guard_node(n, "consensus.process_event", |node| {
                            if let Some(e) = node.q_consensus.pop_front() {
                                block_on(node.consensus.process_event(e));
                            }
                        });
                    }
                    P_VERIFICATION => {
                        self.guard_node(n, "verification.process_event", |node| {
                            if let Some(e) = node.q_verification.pop_front() {
                                block_on(node.verification.process_event(e));
                            }
                        });
                    }
                    _ => {
                        self.guard_node(n, "mining.process_event", |node| {
                            if let Some(e) = node.q_mining.pop_front() {
                                block_on(node.mining.process_event(e));
                            }
                        });
                    }
                }
                self.flush_outbox(n);
            }
            Action::NetIn(n) => {
                self.guard_node(n, "routing.process_network_event", |node| {
                    if let Some(e) = node.net_in.pop_front() {
                        block_on(node.routing.process_network_event(e));
                    }
                });
                self.flush_outbox(n);
            }
            Action::Deliver(c, a_to_b) => {
                let (msg, dst) = {
                    let conn = &mut self.conns[c];
                    let q = if a_to_b { &mut conn.a_to_b } else { &mut conn.b_to_a };
                    // reordering fault: take a later message first
                    let pos = if self.faults.reorder_pm > 0 && q.len() > 1 && self.rng.chance(self.faults.reorder_pm, 1000) {
                        *self.fired.entry("message_reordered".into()).or_insert(0) += 1;
                        1 + self.rng.usize_below(q.len() - 1)
                    } else {
                        0
                    };
                    let m = q.remove(pos).unwrap();
                    (m, if a_to_b { conn.b.clone() } else { conn.a.clone() })
                };
                if self.log_deliveries {
                    self.delivered_log.push((c, a_to_b, msg.clone()));
                }
                match dst {
                    Endpoint::Node(n, idx) => {
                        self.nodes[n].net_in.push_back(NetworkEvent::IncomingNetworkMessage { peer_index: idx, buffer: msg });
                    }
                    Endpoint::External(e) => {
                        self.ext_inbox.push((e, c, msg));
                    }
                }
            }
            Action::FetchDone(i) => {
                let f = self.fetches.remove(i);
                let body = self.serve_fetch(&f);
                let ev = match body {
                    Some(buffer) => NetworkEvent::BlockFetched { block_hash: f.hash, block_id: f.id, peer_index: f.peer, buffer },
                    None => {
                        self.fire("fetch_not_served");
                        NetworkEvent::BlockFetchFailed { block_hash: f.hash, peer_index: f.peer, block_id: f.id }
                    }
                };
                self.nodes[f.node].net_in.push_back(ev);
            }
            Action::FetchFail(i) => {
                let f = self.fetches.remove(i);
                self.fire("fetch_failed");
                self.nodes[f.node].net_in.push_back(NetworkEvent::BlockFetchFailed { block_hash: f.hash, peer_index: f.peer, block_id: f.id });
            }
        }
    }

    /// the fetch server: /block/<hash> = file whose name contains the hash; /lite-block/<hash>/<key> =
    /// decode -> generate -> generate_lite_block(keylist) -> serialize (network_controller.rs routes)
    pub fn serve_fetch(&mut self, f: &PendingFetch) -> Option<Vec<u8>> {
        let remote = self.conn_of(f.node, f.peer).map(|(c, is_a)| if is_a { self.conns[c].b.clone() } else { self.conns[c].a.clone() });
        // the url names the server; connection may be gone meanwhile (http is independent of the socket)
        let server = match remote {
            Some(Endpoint::Node(n, _)) => Some(n),
            Some(Endpoint::External(_)) => None,
            None => self.nodes.iter().position(|n| f.url.starts_with(&n.url)),
        };
        match server {
            None => self.ext_blocks.get(&f.hash).cloned(),
            Some(s) => {
                let hex = f.hash.to_hex();
                let d = self.nodes[s].disk.lock().unwrap();
                let name = d.files.keys().find(|k| k.starts_with(BLOCK_DIR) && k.contains(&hex))?.clone();
                let bytes = d.files.get(&name)?.clone();
                drop(d);
                if f.url.contains("/lite-block/") {
                    let key_b58 = f.url.rsplit('/').next().unwrap_or("");
                    let mut keylist: Vec<SaitoPublicKey> = vec![];
                    if let Ok(k) = SaitoPublicKey::from_base58(key_b58) {
                        keylist.push(k);
                        // the route adds the peer's registered key list
                        let peers = block_on(self.nodes[s].peer_lock.read());
                        if let Some(p) = peers.find_peer_by_address(&k) {
                            keylist.extend(p.key_list.iter().cloned());
                        }
                    }
                    let mut b = Block::deserialize_from_net(&bytes).ok()?;
                    b.generate().ok()?;
                    let lite = b.generate_lite_block(keylist);
                    Some(lite.serialize_for_net(BlockType::Full))
                } else {
                    Some(bytes)
                }
            }
        }
    }

    /// timer tick of processor `p` on node `n` with the time elapsed since its last tick
    pub fn tick(&mut self, n: usize, p: usize) {
        let now = self.nodes[n].clock.now();
        let last = self.nodes[n].last_tick[p];
        let d = Duration::from_millis(now.saturating_sub(last).max(1));
        self.nodes[n].last_tick[p] = now;
        self.schedule_digest.u64(6).u64(n as u64).u64(p as u64);
        self.steps += 1;
        match p {
            P_ROUTING => {
                self.guard_node(n, "routing.process_timer_event", |node| {
                    block_on(node.routing.process_timer_event(d));
                });
            }
            P_CONSENSUS => {
                self.guard_node(n, "consensus.process_timer_event", |node| {
                    block_on(node.consensus.process_timer_event(d));
                });
            }
            P_VERIFICATION => {}
            _ => {
                self.guard_node(n, "mining.process_timer_event", |node| {
                    block_on(node.mining.process_timer_event(d));
                });
            }
        }
        self.flush_outbox(n);
    }

    pub fn run_until_quiet(&mut self, max_steps: u64) -> bool {
        let mut k = 0;
        while k < max_steps {
            if !self.step() {
                return true;
            }
            k += 1;
        }
        self.quiet()
    }

    pub fn take_ext_inbox(&mut self, ext: usize) -> Vec<(usize, Vec<u8>)> {
        let mut out = vec![];
        let mut keep = vec![];
        for (e, c, m) in self.ext_inbox.drain(..) {
            if e == ext {
                out.push((c, m));
            } else {
                keep.push((e, c, m));
            }
        }
        self.ext_inbox = keep;
        out
    }
}

pub fn static_peer(host: &str) -> PeerConfig {
    PeerConfig {
        host: host.to_string(),
        port: 1,
        protocol: "http".to_string(),
        synctype: "full".to_string(),
    }
}

impl Sim {
    /// feed blocks to node `n` as if fetched and verified earlier (consensus path: mempool queue ->
    /// add_blocks_from_mempool -> disk); returns false if the node died
    pub fn preload(&mut self, n: usize, blocks: &[Vec<u8>]) -> bool {
        for bytes in blocks {
            let bytes = bytes.clone();
            let ok = self.guard_node(n, "preload", |node| {
                let mut b = Block::deserialize_from_net(&bytes).expect("decodes");
                b.generate().expect("generates");
                block_on(node.consensus.process_event(ConsensusEvent::BlockFetched { peer_index: 0, block: b }));
                // nothing is connected yet: drop what would have been announced
                node.out.lock().unwrap().msgs.clear();
                node.pump();
                node.q_routing.clear();
                node.q_mining.clear();
            });
            if ok.is_none() {
                return false;
            }
        }
        true
    }

    /// resolve pending outgoing connection attempts with `resolver(node, static peer index) -> server node`
    pub fn resolve_connects(&mut self, resolver: impl Fn(usize, u64) -> Option<usize>) -> Vec<usize> {
        let pend: Vec<(usize, u64)> = self.pending_connects.drain(..).collect();
        let mut made = vec![];
        for (n, idx) in pend {
            if self.conn_of(n, idx).is_some() {
                continue;
            }
            if let Some(s) = resolver(n, idx) {
                if self.nodes[s].dead.is_none() {
                    made.push(self.connect_nodes(n, idx, s));
                }
            }
        }
        made
    }
}

impl Sim {
    /// complete pending fetch `i` with a body chosen by the scenario (None = failure)
    pub fn complete_fetch_with(&mut self, i: usize, body: Option<Vec<u8>>) {
        let f = self.fetches.remove(i);
        self.steps += 1;
        self.schedule_digest.u64(7).u64(body.is_some() as u64);
        let ev = match body {
            Some(buffer) => NetworkEvent::BlockFetched { block_hash: f.hash, block_id: f.id, peer_index: f.peer, buffer },
            None => NetworkEvent::BlockFetchFailed { block_hash: f.hash, peer_index: f.peer, block_id: f.id },
        };
        self.nodes[f.node].net_in.push_back(ev);
    }

    /// run everything except fetch completions until nothing else is enabled
    pub fn settle_without_fetches(&mut self, max_steps: u64) -> bool {
        let mut k = 0;
        loop {
            let acts: Vec<Action> = self.enabled().into_iter().filter(|a| !matches!(a, Action::FetchDone(_) | Action::FetchFail(_))).collect();
            if acts.is_empty() {
                return true;
            }
            let a = acts[self.rng.usize_below(acts.len())].clone();
            self.apply(a);
            k += 1;
            if k >= max_steps {
                return false;
            }
        }
    }
}

// ---------------------------------------------------------------------------------------------
// await-point interleaving of the processors of one node (SimExec): several handlers of
// different processors are in flight at once; a seeded choice decides which woken task is polled
// next; SimIo calls yield with a seeded probability so that a handler can be suspended while it
// holds locks across an I/O await. A state in which unfinished tasks exist and none is woken is
// a deadlock.

use std::future::Future;
use std::pin::Pin;
use std::sync::atomic::AtomicBool;
use std::task::{Context, Poll, Wake, Waker};

struct WakeFlag(AtomicBool);
impl Wake for WakeFlag {
    fn wake(self: Arc<Self>) {
        self.0.store(true, Ordering::SeqCst);
    }
    fn wake_by_ref(self: &Arc<Self>) {
        self.0.store(true, Ordering::SeqCst);
    }
}

#[derive(Clone, Debug)]
pub struct DeadlockReport {
    pub node: usize,
    /// (processor, locks held as (rank, write, file, line), lock awaited)
    pub tasks: Vec<(usize, Vec<(u8, bool, String, u32)>, Option<(u8, bool, String, u32)>)>,
    pub polls: u64,
}

impl Sim {
    /// run the given handler actions of ONE node concurrently (each a different processor)
    pub fn run_concurrently(&mut self, n: usize, procs: &[usize], yield_pm: u64) -> Result<u64, DeadlockReport> {
        let spec: Vec<(usize, bool)> = procs.iter().map(|p| (*p, false)).collect();
        self.run_tasks(n, &spec, yield_pm)
    }

    /// tasks = (processor, is_timer_event); at most one task per processor
    pub fn run_tasks(&mut self, n: usize, procs: &[(usize, bool)], yield_pm: u64) -> Result<u64, DeadlockReport> {
        let spec: Vec<(usize, u8)> = procs.iter().map(|(p, t)| (*p, *t as u8)).collect();
        self.run_tasks_k(n, &spec, yield_pm)
    }

    /// tasks = (processor, kind) with kind 0 = next queued event, 1 = timer call, 2 = statistics
    /// interval call; at most one task per processor
    pub fn run_tasks_k(&mut self, n: usize, procs: &[(usize, u8)], yield_pm: u64) -> Result<u64, DeadlockReport> {
        if self.nodes[n].dead.is_some() || procs.is_empty() {
            return Ok(0);
        }
        self.steps += 1;
        let node_ptr: *mut FullNode = &mut self.nodes[n];
        // SAFETY: each future borrows a different processor field of the node; the node is not
        // moved or otherwise accessed until all futures have completed or been dropped below.
        let mut tasks: Vec<(usize, Option<Pin<Box<dyn Future<Output = ()>>>>, Arc<WakeFlag>)> = vec![];
        for (p, kind) in procs {
            if tasks.iter().any(|t| t.0 == *p) {
                continue;
            }
            let timer = &(*kind == 1);
            let fut: Option<Pin<Box<dyn Future<Output = ()>>>> = unsafe {
                let node = &mut *node_ptr;
                if *kind == 2 {
                    let now = node.clock.now();
                    match *p {
                        P_ROUTING => {
                            let r = &mut (*node_ptr).routing;
                            Some(Box::pin(async move {
                                r.on_stat_interval(now).await;
                            }) as Pin<Box<dyn Future<Output = ()>>>)
                        }
                        P_CONSENSUS => {
                            let c = &mut (*node_ptr).consensus;
                            Some(Box::pin(async move {
                                c.on_stat_interval(now).await;
                            }) as Pin<Box<dyn Future<Output = ()>>>)
                        }
                        P_VERIFICATION => {
                            let v = &mut (*node_ptr).verification;
                            Some(Box::pin(async move {
                                v.on_stat_interval(now).await;
                            }) as Pin<Box<dyn Future<Output = ()>>>)
                        }
                        _ => {
                            let m = &mut (*node_ptr).mining;
                            Some(Box::pin(async move {
                                m.on_stat_interval(now).await;
                            }) as Pin<Box<dyn Future<Output = ()>>>)
                        }
                    }
                } else if *timer {
                    let now = node.clock.now();
                    let d = Duration::from_millis(now.saturating_sub(node.last_tick[*p]).max(1));
                    node.last_tick[*p] = now;
                    match *p {
                        P_ROUTING => {
                            let r = &mut (*node_ptr).routing;
                            Some(Box::pin(async move {
                                r.process_timer_event(d).await;
                            }) as Pin<Box<dyn Future<Output = ()>>>)
                        }
                        P_CONSENSUS => {
                            let c = &mut (*node_ptr).consensus;
                            Some(Box::pin(async move {
                                c.process_timer_event(d).await;
                            }) as Pin<Box<dyn Future<Output = ()>>>)
                        }
                        P_VERIFICATION => None,
                        _ => {
                            let m = &mut (*node_ptr).mining;
                            Some(Box::pin(async move {
                                m.process_timer_event(d).await;
                            }) as Pin<Box<dyn Future<Output = ()>>>)
                        }
                    }
                } else {
                match *p {
                    P_ROUTING => {
                        if let Some(e) = node.net_in.pop_front() {
                            let r = &mut (*node_ptr).routing;
                            Some(Box::pin(async move {
                                r.process_network_event(e).await;
                            }))
                        } else if let Some(e) = node.q_routing.pop_front() {
                            let r = &mut (*node_ptr).routing;
                            Some(Box::pin(async move {
                                r.process_event(e).await;
                            }))
                        } else {
                            None
                        }
                    }
                    P_CONSENSUS => node.q_consensus.pop_front().map(|e| {
                        let c = &mut (*node_ptr).consensus;
                        Box::pin(async move {
                            c.process_event(e).await;
                        }) as Pin<Box<dyn Future<Output = ()>>>
                    }),
                    P_VERIFICATION => node.q_verification.pop_front().map(|e| {
                        let v = &mut (*node_ptr).verification;
                        Box::pin(async move {
                            v.process_event(e).await;
                        }) as Pin<Box<dyn Future<Output = ()>>>
                    }),
                    _ => node.q_mining.pop_front().map(|e| {
                        let m = &mut (*node_ptr).mining;
                        Box::pin(async move {
                            m.process_event(e).await;
                        }) as Pin<Box<dyn Future<Output = ()>>>
                    }),
                }
                }
            };
            if fut.is_some() {
                tasks.push((*p, fut, Arc::new(WakeFlag(AtomicBool::new(true)))));
            }
        }
        let mut yrng = self.rng.fork("yield");
        crate::simio::set_yielder(Some(Box::new(move |_site| yield_pm > 0 && yrng.chance(yield_pm, 1000))));
        let mut lrng = self.rng.fork("lock-yield");
        saito_core::core::util::verif::set_lock_yielder(Some(Box::new(move |_rank| yield_pm > 0 && lrng.chance(yield_pm, 1000))));
        let mut polls = 0u64;
        let mut pumped_since_progress = false;
        let mut result: Result<u64, DeadlockReport> = Ok(0);
        loop {
            let unfinished: Vec<usize> = (0..tasks.len()).filter(|i| tasks[*i].1.is_some()).collect();
            if unfinished.is_empty() {
                break;
            }
            let runnable: Vec<usize> = unfinished.iter().cloned().filter(|i| tasks[*i].2 .0.load(Ordering::SeqCst)).collect();
            if runnable.is_empty() && !pumped_since_progress {
                // a task may be waiting for room in an inter-processor channel: the receiving side
                // (the scheduler's queues) takes everything, which wakes such a sender
                unsafe { (*node_ptr).pump() };
                pumped_since_progress = true;
                continue;
            }
            if runnable.is_empty() {
                // nobody can make progress: deadlock
                let mut rep = vec![];
                for i in &unfinished {
                    let tid = (n as u64) * 10 + tasks[*i].0 as u64 + 1;
                    let held = saito_core::core::util::verif::held_by(tid).into_iter().map(|h| (h.rank, h.write, h.file.to_string(), h.line)).collect();
                    let waiting = saito_core::core::util::verif::waiting_of(tid).map(|h| (h.rank, h.write, h.file.to_string(), h.line));
                    rep.push((tasks[*i].0, held, waiting));
                }
                result = Err(DeadlockReport { node: n, tasks: rep, polls });
                break;
            }
            pumped_since_progress = false;
            let pick = runnable[self.rng.usize_below(runnable.len())];
            let tid = (n as u64) * 10 + tasks[pick].0 as u64 + 1;
            saito_core::core::util::verif::set_current_task(tid);
            tasks[pick].2 .0.store(false, Ordering::SeqCst);
            let waker: Waker = tasks[pick].2.clone().into();
            let mut cx = Context::from_waker(&waker);
            self.schedule_digest.u64(8).u64(tasks[pick].0 as u64);
            polls += 1;
            let fut = tasks[pick].1.as_mut().unwrap();
            let polled = guarded(|| fut.as_mut().poll(&mut cx));
            match polled {
                Ok(Poll::Ready(())) => {
                    tasks[pick].1 = None;
                }
                Ok(Poll::Pending) => {}
                Err(p) => {
                    tasks[pick].1 = None;
                    self.nodes[n].dead = Some(p.clone());
                    self.panics.push((n, "concurrent-handler", p));
                    break;
                }
            }
            if polls > 200_000 {
                break;
            }
        }
        // drop every remaining future before touching the node again
        tasks.clear();
        crate::simio::set_yielder(None);
        saito_core::core::util::verif::set_lock_yielder(None);
        saito_core::core::util::verif::set_current_task(0);
        self.flush_outbox(n);
        match result {
            Ok(_) => Ok(polls),
            Err(e) => Err(e),
        }
    }

    /// like `step`, but when several processors of one node have work they run concurrently
    pub fn step_concurrent(&mut self, yield_pm: u64) -> Result<bool, DeadlockReport> {
        let acts = self.enabled();
        if acts.is_empty() {
            return Ok(false);
        }
        let a = acts[self.rng.usize_below(acts.len())].clone();
        let node = match &a {
            Action::Own(n, _) | Action::NetIn(n) => Some(*n),
            _ => None,
        };
        if let Some(n) = node {
            let mut procs: Vec<usize> = vec![];
            for x in &acts {
                match x {
                    Action::Own(m, p) if *m == n && !procs.contains(p) => procs.push(*p),
                    Action::NetIn(m) if *m == n && !procs.contains(&P_ROUTING) => procs.push(P_ROUTING),
                    _ => {}
                }
            }
            if procs.len() >= 2 {
                *self.fired.entry("concurrent_handlers".into()).or_insert(0) += 1;
                self.run_concurrently(n, &procs, yield_pm)?;
                return Ok(true);
            }
        }
        self.apply(a);
        Ok(true)
    }
}
