use saito_sim::rng::Rng;
use saito_sim::util::{guarded, reset_determinism};
use saito_sim::world::*;

fn main() {
    let t = std::time::Instant::now();
    reset_determinism(1);
    let r = guarded(|| {
        let mut w = World::new(1, Params::default());
        let mut rng = Rng::new(7);
        let mut cur = 0;
        for i in 0..20 {
            cur = w.honest_child(cur, &mut rng, 2, i % 2 == 0, 2500, "h").unwrap();
        }
        let mut n = Node::new(&w.cfg, &w.keys[1]);
        for i in 0..w.recs.len() {
            let r = n.add_block_bytes(&w.recs[i].bytes).unwrap();
            println!("{} {:?}", w.recs[i].id, outcome_of(&r));
        }
        println!("tip {:?} utxo {} ref {}", n.tip().0, n.utxo_keys().len(), w.ledger_at(cur).utxo.len());
        assert_eq!(n.utxo_keys(), w.ledger_at(cur).keys());
    });
    println!("{:?} in {:?}", r.err(), t.elapsed());
}
