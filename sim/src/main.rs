use std::time::{Duration, Instant};

use saito_sim::framework::*;
use saito_sim::props;

fn arg_val(args: &[String], name: &str) -> Option<String> {
    args.iter().position(|a| a == name).and_then(|i| args.get(i + 1).cloned())
}

fn usage() -> ! {
    eprintln!("usage: simctl check <id> [--tier quick|thorough] [--seed N] [--workers N] [--max-runs N] [--wall-s N]\n       simctl replay <file>\n       simctl selftest <id|all> [--runs N]\n       simctl run1 <id> --index N [--tier T] [--seed N]\n       simctl list");
    std::process::exit(2)
}

struct StderrLog;
impl log::Log for StderrLog {
    fn enabled(&self, _m: &log::Metadata) -> bool {
        true
    }
    fn log(&self, r: &log::Record) {
        eprintln!("[{}] {}:{} {}", r.level(), r.file().unwrap_or("?").rsplit('/').next().unwrap_or("?"), r.line().unwrap_or(0), r.args());
    }
    fn flush(&self) {}
}
static LOGGER: StderrLog = StderrLog;

/// formats every record into nothing: with the level raised (per run, see util::sink_logging) the argument
/// expressions and Display implementations of the node's log statements are evaluated as they are on a node that
/// runs with debug logging, without the output
struct SinkLog;
struct Null;
impl std::fmt::Write for Null {
    fn write_str(&mut self, _s: &str) -> std::fmt::Result {
        Ok(())
    }
}
impl log::Log for SinkLog {
    fn enabled(&self, _m: &log::Metadata) -> bool {
        true
    }
    fn log(&self, r: &log::Record) {
        use std::fmt::Write;
        let _ = write!(Null, "{}", r.args());
    }
    fn flush(&self) {}
}
static SINK: SinkLog = SinkLog;

fn main() {
    if let Ok(l) = std::env::var("VERIF_LOG") {
        let _ = log::set_logger(&LOGGER);
        log::set_max_level(match l.as_str() {
            "trace" => log::LevelFilter::Trace,
            "debug" => log::LevelFilter::Debug,
            "info" => log::LevelFilter::Info,
            _ => log::LevelFilter::Warn,
        });
    } else {
        // error-level statements are evaluated on every production node whatever its log configuration
        let _ = log::set_logger(&SINK);
        log::set_max_level(log::LevelFilter::Error);
    }
    let args: Vec<String> = std::env::args().collect();
    if args.len() < 2 {
        usage();
    }
    let verif_root = std::env::var("VERIF_ROOT").unwrap_or_else(|_| "/verif".to_string());
    let seed: u64 = arg_val(&args, "--seed")
        .and_then(|s| s.parse().ok())
        .or_else(|| std::env::var("VERIF_SEED").ok().and_then(|s| s.parse().ok()))
        .unwrap_or(DEFAULT_SEED);
    let tier = Tier::parse(
        &arg_val(&args, "--tier")
            .or_else(|| std::env::var("VERIF_TIER").ok())
            .unwrap_or_else(|| "quick".into()),
    );
    let workers: usize = arg_val(&args, "--workers")
        .and_then(|s| s.parse().ok())
        .unwrap_or_else(|| std::thread::available_parallelism().map(|n| n.get()).unwrap_or(8).min(16));
    match args[1].as_str() {
        "list" => {
            for s in props::all() {
                println!("{}", s.id());
            }
        }
        "check" => {
            let id = args.get(2).unwrap_or_else(|| usage());
            let sc = props::by_id(id).unwrap_or_else(|| {
                eprintln!("unknown property {}", id);
                std::process::exit(2)
            });
            let opt = CheckOptions {
                verif_root,
                workers,
                seed,
                tier,
                max_runs_override: arg_val(&args, "--max-runs").and_then(|s| s.parse().ok()),
                wall_override: arg_val(&args, "--wall-s").and_then(|s| s.parse().ok()),
            };
            std::process::exit(check_main(sc, &opt));
        }
        "worker" => {
            let id = args.get(2).unwrap_or_else(|| usage());
            let sc = props::by_id(id).unwrap();
            let from: u64 = arg_val(&args, "--from").and_then(|s| s.parse().ok()).unwrap_or(0);
            let stride: u64 = arg_val(&args, "--stride").and_then(|s| s.parse().ok()).unwrap_or(1);
            let max_index: u64 = arg_val(&args, "--max-index").and_then(|s| s.parse().ok()).unwrap_or(1);
            let wall: u64 = arg_val(&args, "--wall-s").and_then(|s| s.parse().ok()).unwrap_or(30);
            let trace = args.iter().any(|a| a == "--trace-hashes");
            worker_main(sc, tier, seed, from, stride, max_index, Instant::now() + Duration::from_secs(wall), trace);
        }
        "replay" => {
            let path = args.get(2).unwrap_or_else(|| usage());
            let s = std::fs::read_to_string(path).unwrap_or_else(|e| {
                eprintln!("cannot read {}: {}", path, e);
                std::process::exit(2)
            });
            let rf: ReplayFile = serde_json::from_str(&s).unwrap_or_else(|e| {
                eprintln!("bad replay file: {}", e);
                std::process::exit(2)
            });
            let sc = props::by_id(&rf.property).unwrap();
            std::process::exit(replay_main(sc, &rf, path));
        }
        "run1" => {
            let id = args.get(2).unwrap_or_else(|| usage());
            let sc = props::by_id(id).unwrap();
            let index: u64 = arg_val(&args, "--index").and_then(|s| s.parse().ok()).unwrap_or(0);
            let plan = sc.generate(seed, index, tier);
            println!("{}", serde_json::to_string(&plan).unwrap());
            let r = run_plan(sc, &plan);
            println!("{}", serde_json::to_string_pretty(&r).unwrap());
        }
        "selftest" => {
            let id = args.get(2).unwrap_or_else(|| usage());
            let runs: u64 = arg_val(&args, "--runs").and_then(|s| s.parse().ok()).unwrap_or(2000);
            let mut code = 0;
            for sc in props::all() {
                if id == "all" || id == sc.id() {
                    let c = selftest_main(sc, seed, runs, workers);
                    if c != 0 {
                        code = c;
                    }
                }
            }
            std::process::exit(code);
        }
        _ => usage(),
    }
}
