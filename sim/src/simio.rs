//! SimIo: the one `InterfaceIO` the simulated nodes see. In-memory disk with journal and faults,
//! an outbox for everything that would go to the network controller, and cooperative yields.
//!
//! Fidelity: `write_value` = truncate + write (no fsync, no rename) exactly like
//! `saito-rust/src/rust_io_handler.rs`; wallet save/load mirror that handler; the block file
//! listing is ordered by modification sequence like the handler's mtime sort.

use std::cell::RefCell;
use std::collections::BTreeMap;
use std::future::Future;
use std::io::{Error, ErrorKind};
use std::pin::Pin;
use std::sync::{Arc, Mutex};
use std::task::{Context, Poll};

use async_trait::async_trait;
use saito_core::core::consensus::peers::peer_service::PeerService;
use saito_core::core::consensus::wallet::Wallet;
use saito_core::core::defs::{BlockId, PeerIndex, SaitoHash, BLOCK_FILE_EXTENSION};
use saito_core::core::io::interface_io::{InterfaceEvent, InterfaceIO};

pub const BLOCK_DIR: &str = "./data/blocks/";
pub const WALLET_PATH: &str = "./data/wallet";
pub const CHECKPOINT_DIR: &str = "./data/checkpoints/";

#[derive(Clone, Debug, PartialEq, Eq)]
pub enum JournalOp {
    Write { path: String, data: Vec<u8> },
    Remove { path: String },
}

#[derive(Default, Debug)]
pub struct DiskState {
    pub files: BTreeMap<String, Vec<u8>>,
    /// modification sequence per path (stands in for mtime)
    pub mseq: BTreeMap<String, u64>,
    pub seq: u64,
    pub journal: Vec<JournalOp>,
    pub record_journal: bool,
    /// fail every read whose path contains this substring
    pub fail_reads_containing: Vec<String>,
    /// fail the n-th (0-based, counted from arming) read of a block file
    pub fail_block_read_nth: Option<u64>,
    pub block_reads: u64,
    pub read_faults_fired: u64,
    pub reads: u64,
    pub writes: u64,
    pub removes: u64,
}

impl DiskState {
    pub fn apply(&mut self, op: &JournalOp) {
        match op {
            JournalOp::Write { path, data } => {
                self.seq += 1;
                self.files.insert(path.clone(), data.clone());
                self.mseq.insert(path.clone(), self.seq);
            }
            JournalOp::Remove { path } => {
                self.files.remove(path);
                self.mseq.remove(path);
            }
        }
    }
    pub fn block_files(&self) -> Vec<String> {
        let mut v: Vec<(u64, String)> = self
            .files
            .keys()
            .filter(|k| k.starts_with(BLOCK_DIR) && k.contains(BLOCK_FILE_EXTENSION))
            .map(|k| (*self.mseq.get(k).unwrap_or(&0), k[BLOCK_DIR.len()..].to_string()))
            .collect();
        v.sort();
        v.into_iter().map(|(_, n)| n).collect()
    }
}

#[derive(Clone, Debug)]
pub enum OutMsg {
    Send { peer: u64, buf: Vec<u8> },
    SendAll { buf: Vec<u8>, excluded: Vec<u64> },
    Connect { url: String, peer: u64 },
    Disconnect { peer: u64 },
    Fetch { hash: SaitoHash, peer: u64, url: String, id: BlockId },
}

#[derive(Clone, Debug, PartialEq, Eq)]
pub enum IfaceEvent {
    HandshakeComplete(u64),
    ConnectionDropped(u64),
    PeerConnected(u64),
    BlockAddSuccess(SaitoHash, u64),
    WalletUpdate,
    Other,
}

#[derive(Default, Debug)]
pub struct Outbox {
    pub msgs: Vec<OutMsg>,
    pub events: Vec<IfaceEvent>,
}

#[derive(Clone, Debug)]
pub struct SimIo {
    pub disk: Arc<Mutex<DiskState>>,
    pub out: Arc<Mutex<Outbox>>,
}

impl SimIo {
    pub fn new(disk: Arc<Mutex<DiskState>>, out: Arc<Mutex<Outbox>>) -> SimIo {
        SimIo { disk, out }
    }
    pub fn fresh() -> SimIo {
        SimIo {
            disk: Arc::new(Mutex::new(DiskState::default())),
            out: Arc::new(Mutex::new(Outbox::default())),
        }
    }
}

// ---------------------------------------------------------------------------------------------
// cooperative yield ("buggify"): an I/O call may return Pending once so that another processor
// runs while this one holds locks across the await — decided by the simulator, per site.

thread_local! {
    static YIELDER: RefCell<Option<Box<dyn FnMut(&'static str) -> bool>>> = RefCell::new(None);
}

pub fn set_yielder(f: Option<Box<dyn FnMut(&'static str) -> bool>>) {
    YIELDER.with(|y| *y.borrow_mut() = f);
}

struct YieldOnce(bool);
impl Future for YieldOnce {
    type Output = ();
    fn poll(mut self: Pin<&mut Self>, cx: &mut Context<'_>) -> Poll<()> {
        if self.0 {
            Poll::Ready(())
        } else {
            self.0 = true;
            cx.waker().wake_by_ref();
            Poll::Pending
        }
    }
}

pub async fn sim_yield(site: &'static str) {
    let y = YIELDER.with(|y| match y.borrow_mut().as_mut() {
        Some(f) => f(site),
        None => false,
    });
    if y {
        YieldOnce(false).await;
    }
}

#[async_trait]
impl InterfaceIO for SimIo {
    async fn send_message(&self, peer_index: u64, buffer: &[u8]) -> Result<(), Error> {
        sim_yield("io.send_message").await;
        self.out.lock().unwrap().msgs.push(OutMsg::Send {
            peer: peer_index,
            buf: buffer.to_vec(),
        });
        Ok(())
    }

    async fn send_message_to_all(
        &self,
        buffer: &[u8],
        excluded_peers: Vec<u64>,
    ) -> Result<(), Error> {
        sim_yield("io.send_message_to_all").await;
        self.out.lock().unwrap().msgs.push(OutMsg::SendAll {
            buf: buffer.to_vec(),
            excluded: excluded_peers,
        });
        Ok(())
    }

    async fn connect_to_peer(&mut self, url: String, peer_index: PeerIndex) -> Result<(), Error> {
        sim_yield("io.connect_to_peer").await;
        self.out.lock().unwrap().msgs.push(OutMsg::Connect {
            url,
            peer: peer_index,
        });
        Ok(())
    }

    async fn disconnect_from_peer(&self, peer_index: u64) -> Result<(), Error> {
        sim_yield("io.disconnect_from_peer").await;
        self.out
            .lock()
            .unwrap()
            .msgs
            .push(OutMsg::Disconnect { peer: peer_index });
        Ok(())
    }

    async fn fetch_block_from_peer(
        &self,
        block_hash: SaitoHash,
        peer_index: u64,
        url: &str,
        block_id: BlockId,
    ) -> Result<(), Error> {
        if block_hash == [0; 32] {
            return Ok(());
        }
        sim_yield("io.fetch_block_from_peer").await;
        self.out.lock().unwrap().msgs.push(OutMsg::Fetch {
            hash: block_hash,
            peer: peer_index,
            url: url.to_string(),
            id: block_id,
        });
        Ok(())
    }

    async fn write_value(&self, key: &str, value: &[u8]) -> Result<(), Error> {
        sim_yield("io.write_value").await;
        let mut d = self.disk.lock().unwrap();
        d.writes += 1;
        let op = JournalOp::Write {
            path: key.to_string(),
            data: value.to_vec(),
        };
        if d.record_journal {
            d.journal.push(op.clone());
        }
        d.apply(&op);
        Ok(())
    }

    async fn append_value(&mut self, key: &str, value: &[u8]) -> Result<(), Error> {
        let mut d = self.disk.lock().unwrap();
        let mut cur = d.files.get(key).cloned().unwrap_or_default();
        cur.extend_from_slice(value);
        let op = JournalOp::Write {
            path: key.to_string(),
            data: cur,
        };
        if d.record_journal {
            d.journal.push(op.clone());
        }
        d.apply(&op);
        Ok(())
    }

    async fn flush_data(&mut self, _key: &str) -> Result<(), Error> {
        Ok(())
    }

    async fn read_value(&self, key: &str) -> Result<Vec<u8>, Error> {
        sim_yield("io.read_value").await;
        let mut d = self.disk.lock().unwrap();
        d.reads += 1;
        if d.fail_reads_containing.iter().any(|s| key.contains(s.as_str())) {
            d.read_faults_fired += 1;
            return Err(Error::from(ErrorKind::Other));
        }
        if key.starts_with(BLOCK_DIR) {
            let n = d.block_reads;
            d.block_reads += 1;
            if d.fail_block_read_nth == Some(n) {
                d.read_faults_fired += 1;
                return Err(Error::from(ErrorKind::Other));
            }
        }
        match d.files.get(key) {
            Some(v) => Ok(v.clone()),
            None => Err(Error::from(ErrorKind::NotFound)),
        }
    }

    async fn load_block_file_list(&self) -> Result<Vec<String>, Error> {
        sim_yield("io.load_block_file_list").await;
        Ok(self.disk.lock().unwrap().block_files())
    }

    async fn is_existing_file(&self, key: &str) -> bool {
        self.disk.lock().unwrap().files.contains_key(key)
    }

    async fn remove_value(&self, key: &str) -> Result<(), Error> {
        sim_yield("io.remove_value").await;
        let mut d = self.disk.lock().unwrap();
        d.removes += 1;
        if !d.files.contains_key(key) {
            return Err(Error::from(ErrorKind::NotFound));
        }
        let op = JournalOp::Remove {
            path: key.to_string(),
        };
        if d.record_journal {
            d.journal.push(op.clone());
        }
        d.apply(&op);
        Ok(())
    }

    fn get_block_dir(&self) -> String {
        BLOCK_DIR.to_string()
    }

    fn get_checkpoint_dir(&self) -> String {
        CHECKPOINT_DIR.to_string()
    }

    fn ensure_block_directory_exists(&self, _block_dir: &str) -> Result<(), Error> {
        Ok(())
    }

    async fn process_api_call(&self, _buffer: Vec<u8>, _msg_index: u32, _peer_index: PeerIndex) {}
    async fn process_api_success(&self, _buffer: Vec<u8>, _msg_index: u32, _peer_index: PeerIndex) {
    }
    async fn process_api_error(&self, _buffer: Vec<u8>, _msg_index: u32, _peer_index: PeerIndex) {}

    fn send_interface_event(&self, event: InterfaceEvent) {
        let e = match event {
            InterfaceEvent::PeerHandshakeComplete(i) => IfaceEvent::HandshakeComplete(i),
            InterfaceEvent::PeerConnectionDropped(i, _) => IfaceEvent::ConnectionDropped(i),
            InterfaceEvent::PeerConnected(i) => IfaceEvent::PeerConnected(i),
            InterfaceEvent::BlockAddSuccess(h, id) => IfaceEvent::BlockAddSuccess(h, id),
            InterfaceEvent::WalletUpdate() => IfaceEvent::WalletUpdate,
            _ => IfaceEvent::Other,
        };
        self.out.lock().unwrap().events.push(e);
    }

    async fn save_wallet(&self, wallet: &mut Wallet) -> Result<(), Error> {
        let buffer = wallet.serialize_for_disk();
        self.write_value(WALLET_PATH, buffer.as_slice()).await
    }

    async fn load_wallet(&self, wallet: &mut Wallet) -> Result<(), Error> {
        if !self.is_existing_file(WALLET_PATH).await {
            return Ok(());
        }
        let buffer = self.read_value(WALLET_PATH).await?;
        wallet.deserialize_from_disk(&buffer);
        Ok(())
    }

    fn get_my_services(&self) -> Vec<PeerService> {
        vec![]
    }
}
