pub mod framework;
pub mod l2;
pub mod props;
pub mod rng;
pub mod simcfg;
pub mod simio;
pub mod util;
pub mod world;
