//! One integer decides everything: xoshiro256** seeded by splitmix64, forkable sub-streams.

#[derive(Clone, Debug)]
pub struct Rng {
    s: [u64; 4],
}

pub fn splitmix64(x: &mut u64) -> u64 {
    *x = x.wrapping_add(0x9E37_79B9_7F4A_7C15);
    let mut z = *x;
    z = (z ^ (z >> 30)).wrapping_mul(0xBF58_476D_1CE4_E5B9);
    z = (z ^ (z >> 27)).wrapping_mul(0x94D0_49BB_1331_11EB);
    z ^ (z >> 31)
}

pub fn mix(a: u64, b: u64) -> u64 {
    let mut x = a ^ b.rotate_left(32) ^ 0xD6E8_FEB8_6659_FD93;
    splitmix64(&mut x)
}

pub fn fnv(s: &str) -> u64 {
    let mut h: u64 = 0xcbf2_9ce4_8422_2325;
    for b in s.as_bytes() {
        h ^= *b as u64;
        h = h.wrapping_mul(0x0000_0100_0000_01B3);
    }
    h
}

pub fn fnv_bytes(bytes: &[u8]) -> u64 {
    let mut h: u64 = 0xcbf2_9ce4_8422_2325;
    for b in bytes {
        h ^= *b as u64;
        h = h.wrapping_mul(0x0000_0100_0000_01B3);
    }
    h
}

/// seed of run `i` of property `prop` under the global seed
pub fn run_seed(global: u64, prop: &str, i: u64) -> u64 {
    mix(mix(global, fnv(prop)), i)
}

impl Rng {
    pub fn new(seed: u64) -> Rng {
        let mut x = seed;
        let s = [
            splitmix64(&mut x),
            splitmix64(&mut x),
            splitmix64(&mut x),
            splitmix64(&mut x),
        ];
        Rng { s }
    }
    pub fn next_u64(&mut self) -> u64 {
        let result = self.s[1].wrapping_mul(5).rotate_left(7).wrapping_mul(9);
        let t = self.s[1] << 17;
        self.s[2] ^= self.s[0];
        self.s[3] ^= self.s[1];
        self.s[1] ^= self.s[2];
        self.s[0] ^= self.s[3];
        self.s[2] ^= t;
        self.s[3] = self.s[3].rotate_left(45);
        result
    }
    /// independent sub-stream; adding draws in one component does not shift another
    pub fn fork(&self, label: &str) -> Rng {
        Rng::new(mix(self.s[0] ^ self.s[2], fnv(label)))
    }
    /// uniform in 0..n (n > 0)
    pub fn below(&mut self, n: u64) -> u64 {
        debug_assert!(n > 0);
        if n <= 1 {
            return 0;
        }
        // multiply-shift, bias negligible for simulation purposes
        ((self.next_u64() as u128 * n as u128) >> 64) as u64
    }
    pub fn range(&mut self, lo: u64, hi_incl: u64) -> u64 {
        lo + self.below(hi_incl - lo + 1)
    }
    pub fn usize_below(&mut self, n: usize) -> usize {
        self.below(n as u64) as usize
    }
    /// true with probability num/den
    pub fn chance(&mut self, num: u64, den: u64) -> bool {
        self.below(den) < num
    }
    pub fn pick<'a, T>(&mut self, xs: &'a [T]) -> &'a T {
        &xs[self.usize_below(xs.len())]
    }
    pub fn shuffle<T>(&mut self, xs: &mut [T]) {
        for i in (1..xs.len()).rev() {
            let j = self.usize_below(i + 1);
            xs.swap(i, j);
        }
    }
    pub fn bytes32(&mut self) -> [u8; 32] {
        let mut out = [0u8; 32];
        for c in out.chunks_mut(8) {
            c.copy_from_slice(&self.next_u64().to_le_bytes());
        }
        out
    }
}
