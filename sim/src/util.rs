//! run guard (panic capture, per-run determinism reset), digest helpers.

use std::cell::RefCell;
use std::panic::{catch_unwind, AssertUnwindSafe};
use std::sync::Once;

use saito_core::core::util::verif::StepBudgetExceeded;

#[derive(Clone, Debug)]
pub struct PanicReport {
    pub msg: String,
    pub file: String,
    pub line: u32,
    pub step_budget: bool,
}

impl PanicReport {
    /// stable site: file name + message with digits/hex stripped (line shifts do not matter)
    pub fn site(&self) -> String {
        let f = self.file.rsplit('/').next().unwrap_or("").to_string();
        // first six purely alphabetic words of the message (values, digits, punctuation dropped)
        let words: Vec<String> = self
            .msg
            .split(|c: char| !c.is_ascii_alphabetic())
            .filter(|w| w.len() > 1)
            .take(6)
            .map(|w| w.to_string())
            .collect();
        format!("{}:{}", f, words.join("_"))
    }
}

thread_local! {
    static LAST_PANIC: RefCell<Option<PanicReport>> = RefCell::new(None);
}

static HOOK: Once = Once::new();

pub fn install_panic_hook() {
    HOOK.call_once(|| {
        let verbose = std::env::var("VERIF_PANIC_VERBOSE").is_ok();
        std::panic::set_hook(Box::new(move |info| {
            let (file, line) = info
                .location()
                .map(|l| (l.file().to_string(), l.line()))
                .unwrap_or(("?".to_string(), 0));
            let payload = info.payload();
            let (msg, step_budget) = if let Some(s) = payload.downcast_ref::<&str>() {
                (s.to_string(), false)
            } else if let Some(s) = payload.downcast_ref::<String>() {
                (s.clone(), false)
            } else if let Some(s) = payload.downcast_ref::<StepBudgetExceeded>() {
                (format!("step budget exceeded at {}", s.site), true)
            } else {
                ("<non-string panic>".to_string(), false)
            };
            if verbose {
                eprintln!("[panic] {}:{} {}", file, line, msg);
            }
            LAST_PANIC.with(|p| {
                *p.borrow_mut() = Some(PanicReport {
                    msg,
                    file,
                    line,
                    step_budget,
                })
            });
        }));
    });
}

/// run `f`, converting a panic into a report
pub fn guarded<T>(f: impl FnOnce() -> T) -> Result<T, PanicReport> {
    install_panic_hook();
    LAST_PANIC.with(|p| *p.borrow_mut() = None);
    match catch_unwind(AssertUnwindSafe(f)) {
        Ok(v) => Ok(v),
        Err(_) => {
            // disarm step budget in case it was armed
            saito_core::core::util::verif::set_step_budget(u64::MAX);
            Err(LAST_PANIC.with(|p| p.borrow_mut().take()).unwrap_or(PanicReport {
                msg: "<unknown>".into(),
                file: "?".into(),
                line: 0,
                step_budget: false,
            }))
        }
    }
}

/// reset every process-global / thread-local source of nondeterminism at the start of a run
pub fn reset_determinism(seed: u64) {
    ahash::random_state::verif_reset(0x1234_5678);
    saito_core::core::util::verif::set_random_seed(seed);
    saito_core::core::util::verif::set_step_budget(u64::MAX);
    crate::simio::set_yielder(None);
}

pub fn block_on<F: std::future::Future>(f: F) -> F::Output {
    futures::executor::block_on(f)
}

/// order-independent-input digest: feed sorted things
#[derive(Clone)]
pub struct Digest(pub u64);
impl Digest {
    pub fn new() -> Digest {
        Digest(0xcbf2_9ce4_8422_2325)
    }
    pub fn bytes(&mut self, b: &[u8]) -> &mut Self {
        for x in b {
            self.0 ^= *x as u64;
            self.0 = self.0.wrapping_mul(0x0000_0100_0000_01B3);
        }
        self.0 = self.0.rotate_left(17) ^ 0x9E37_79B9_7F4A_7C15;
        self
    }
    pub fn u64(&mut self, v: u64) -> &mut Self {
        self.bytes(&v.to_le_bytes())
    }
    pub fn str(&mut self, s: &str) -> &mut Self {
        self.bytes(s.as_bytes())
    }
    pub fn get(&self) -> u64 {
        self.0
    }
}

pub fn hex8(h: &[u8]) -> String {
    hex::encode(&h[..4.min(h.len())])
}


/// per run: evaluate the node's log statements up to debug level into a sink (on), or only the error-level ones, which every production node evaluates (off). No effect
/// when VERIF_LOG asked for real log output. The level is process-global; a worker process executes its runs one
/// after the other.
pub fn sink_logging(on: bool) {
    if std::env::var("VERIF_LOG").is_ok() {
        return;
    }
    log::set_max_level(if on { log::LevelFilter::Debug } else { log::LevelFilter::Error });
}
